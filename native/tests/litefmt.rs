//! E2 validation: the formatting shim equals core::fmt on every spec it supports, and the
//! re-rooted toml_write (`tw`) writes byte-for-byte what the real toml_write writes.
use litefmt::{lite_write, FixedBuf};
use std::fmt::Write as _;

fn shim<F: FnOnce(&mut String) -> std::fmt::Result>(f: F) -> String {
    let mut s = String::new();
    f(&mut s).unwrap();
    s
}

#[test]
fn integers_and_specs_equal_core_fmt() {
    let u32s = [0u32, 1, 9, 10, 15, 16, 99, 100, 255, 256, 4095, 4096, 65535, 65536, 0x10FFFF, 999_999_999, 1_000_000_000, u32::MAX];
    for &v in &u32s {
        assert_eq!(shim(|w| lite_write!(w, "{}", v)), format!("{}", v));
        macro_rules! spec { ($($f:literal)*) => {$(
            assert_eq!(shim(|w| lite_write!(w, $f, v)), format!($f, v), "{} of {}", $f, v);
        )*}}
        spec!("{:01}" "{:02}" "{:03}" "{:04}" "{:05}" "{:09}" "{:010}" "{:012}");
        spec!("{:01X}" "{:02X}" "{:04X}" "{:06X}" "{:08X}" "{:010X}");
    }
    for v in 0..=255u8 {
        assert_eq!(shim(|w| lite_write!(w, "{:02}", v)), format!("{:02}", v));
        assert_eq!(shim(|w| lite_write!(w, "{}", v)), format!("{}", v));
        let i = v as i8;
        assert_eq!(shim(|w| lite_write!(w, "{}", i)), format!("{}", i));
        assert_eq!(shim(|w| lite_write!(w, "{:04}", i)), format!("{:04}", i));
    }
    for v in [0u16, 7, 99, 100, 1979, 9999, 10000, u16::MAX] {
        assert_eq!(shim(|w| lite_write!(w, "{:04}", v)), format!("{:04}", v));
        let i = v as i16;
        assert_eq!(shim(|w| lite_write!(w, "{}", i)), format!("{}", i));
    }
    for v in [i64::MIN, -1, 0, 1, 42, i64::MAX] {
        assert_eq!(shim(|w| lite_write!(w, "{}", v)), format!("{}", v));
        assert_eq!(shim(|w| lite_write!(w, "{v}")), format!("{v}"));
    }
    for v in [i32::MIN, -1, 0, 7, i32::MAX] {
        assert_eq!(shim(|w| lite_write!(w, "{}", v)), format!("{}", v));
    }
    for v in [0u64, 10, u64::MAX] {
        assert_eq!(shim(|w| lite_write!(w, "{}", v)), format!("{}", v));
    }
    let (a, b, c) = ("x", 'y', true);
    assert_eq!(shim(|w| lite_write!(w, "{{{a}}}-{b}{}", c)), format!("{{{a}}}-{b}{}", c));
    let mut fb = FixedBuf::<4>::new();
    assert!(fb.write_str("abcd").is_ok() && fb.write_str("e").is_err() && fb.overflow);
}

fn strings() -> Vec<String> {
    let alphabet = ['"', '\'', '\\', '\n', '\r', '\t', ' ', '\0', '\u{1}', '\u{8}', '\u{c}', '\u{1f}', '\u{7f}', '#', 'a', 'é', '😀'];
    let mut v = vec![String::new()];
    let mut frontier = vec![String::new()];
    for _ in 0..3 {
        let mut next = Vec::new();
        for s in &frontier {
            for c in alphabet {
                let mut t = s.clone();
                t.push(c);
                next.push(t);
            }
        }
        v.extend(next.iter().cloned());
        frontier = next;
    }
    v.push("\"\"\"\"".into());
    v.push("''''a'''".into());
    v
}

#[test]
fn rerooted_toml_write_equals_the_real_crate() {
    use toml_write::{ToTomlKey as _, ToTomlValue as _};
    use tw::{ToTomlKey as _, ToTomlValue as _};
    let mut n = 0;
    for s in strings() {
        let real = toml_write::TomlStringBuilder::new(&s);
        let e2 = tw::TomlStringBuilder::new(&s);
        assert_eq!(real.as_default().to_toml_value(), e2.as_default().to_toml_value(), "{s:?}");
        assert_eq!(real.as_basic().to_toml_value(), e2.as_basic().to_toml_value(), "{s:?}");
        assert_eq!(real.as_ml_basic().to_toml_value(), e2.as_ml_basic().to_toml_value(), "{s:?}");
        assert_eq!(real.as_literal().map(|t| t.to_toml_value()), e2.as_literal().map(|t| t.to_toml_value()), "{s:?}");
        assert_eq!(real.as_ml_literal().map(|t| t.to_toml_value()), e2.as_ml_literal().map(|t| t.to_toml_value()), "{s:?}");
        assert_eq!(real.as_basic_pretty().map(|t| t.to_toml_value()), e2.as_basic_pretty().map(|t| t.to_toml_value()), "{s:?}");
        assert_eq!(real.as_ml_basic_pretty().map(|t| t.to_toml_value()), e2.as_ml_basic_pretty().map(|t| t.to_toml_value()), "{s:?}");
        let rk = toml_write::TomlKeyBuilder::new(&s);
        let ek = tw::TomlKeyBuilder::new(&s);
        assert_eq!(rk.as_default().to_toml_key(), ek.as_default().to_toml_key(), "{s:?}");
        assert_eq!(rk.as_basic().to_toml_key(), ek.as_basic().to_toml_key(), "{s:?}");
        assert_eq!(rk.as_unquoted().map(|t| t.to_toml_key()), ek.as_unquoted().map(|t| t.to_toml_key()), "{s:?}");
        assert_eq!(rk.as_literal().map(|t| t.to_toml_key()), ek.as_literal().map(|t| t.to_toml_key()), "{s:?}");
        n += 1;
    }
    assert!(n > 5000);
    for x in [0.0f64, -0.0, 1.0, -1.5, 1e16, 1e300, f64::MAX, f64::MIN_POSITIVE, f64::INFINITY, f64::NEG_INFINITY, f64::NAN, -f64::NAN, 0.1, 123456.789] {
        assert_eq!(toml_write::ToTomlValue::to_toml_value(&x), tw::ToTomlValue::to_toml_value(&x), "{x:?}");
        let y = x as f32;
        assert_eq!(toml_write::ToTomlValue::to_toml_value(&y), tw::ToTomlValue::to_toml_value(&y), "{y:?}");
    }
    for x in [i64::MIN, -1, 0, 1, i64::MAX] {
        assert_eq!(toml_write::ToTomlValue::to_toml_value(&x), tw::ToTomlValue::to_toml_value(&x));
    }
    assert_eq!(toml_write::ToTomlValue::to_toml_value(&true), tw::ToTomlValue::to_toml_value(&true));
}
