//! E2 validation: the formatting shim equals core::fmt on every spec it supports, and the
//! re-rooted toml_write (`tw`) writes byte-for-byte what the real toml_write writes.
use litefmt::{lite_write, FixedBuf};
use std::fmt::Write as _;

fn shim<F: FnOnce(&mut String) -> std::fmt::Result>(f: F) -> String {
    let mut s = String::new();
    f(&mut s).unwrap();
    s
}

#[test]
fn integers_and_specs_equal_core_fmt() {
    let u32s = [0u32, 1, 9, 10, 15, 16, 99, 100, 255, 256, 4095, 4096, 65535, 65536, 0x10FFFF, 999_999_999, 1_000_000_000, u32::MAX];
    for &v in &u32s {
        assert_eq!(shim(|w| lite_write!(w, "{}", v)), format!("{}", v));
        macro_rules! spec { ($($f:literal)*) => {$(
            assert_eq!(shim(|w| lite_write!(w, $f, v)), format!($f, v), "{} of {}", $f, v);
        )*}}
        spec!("{:01}" "{:02}" "{:03}" "{:04}" "{:05}" "{:09}" "{:010}" "{:012}");
        spec!("{:01X}" "{:02X}" "{:04X}" "{:06X}" "{:08X}" "{:010X}");
        spec!("{:x}" "{:X}" "{:04x}" "{:08x}" "{:1}" "{:2}" "{:4}" "{:>5}" "{:<5}" "{:<2}" "{:12}");
    }
    for v in 0..=255u8 {
        assert_eq!(shim(|w| lite_write!(w, "{:02}", v)), format!("{:02}", v));
        assert_eq!(shim(|w| lite_write!(w, "{}", v)), format!("{}", v));
        let i = v as i8;
        assert_eq!(shim(|w| lite_write!(w, "{}", i)), format!("{}", i));
        assert_eq!(shim(|w| lite_write!(w, "{:04}", i)), format!("{:04}", i));
        assert_eq!(shim(|w| lite_write!(w, "{:2}", v)), format!("{:2}", v));
        assert_eq!(shim(|w| lite_write!(w, "{:4}|{:<4}|", i, i)), format!("{:4}|{:<4}|", i, i));
    }
    for v in [0u16, 7, 99, 100, 1979, 9999, 10000, u16::MAX] {
        assert_eq!(shim(|w| lite_write!(w, "{:04}", v)), format!("{:04}", v));
        let i = v as i16;
        assert_eq!(shim(|w| lite_write!(w, "{}", i)), format!("{}", i));
    }
    for v in [i64::MIN, -1, 0, 1, 42, i64::MAX] {
        assert_eq!(shim(|w| lite_write!(w, "{}", v)), format!("{}", v));
        assert_eq!(shim(|w| lite_write!(w, "{v}")), format!("{v}"));
    }
    for v in [i32::MIN, -1, 0, 7, i32::MAX] {
        assert_eq!(shim(|w| lite_write!(w, "{}", v)), format!("{}", v));
    }
    for v in [0u64, 10, u64::MAX] {
        assert_eq!(shim(|w| lite_write!(w, "{}", v)), format!("{}", v));
    }
    let (a, b, c) = ("x", 'y', true);
    assert_eq!(shim(|w| lite_write!(w, "{{{a}}}-{b}{}", c)), format!("{{{a}}}-{b}{}", c));
    let mut fb = FixedBuf::<4>::new();
    assert!(fb.write_str("abcd").is_ok() && fb.write_str("e").is_err() && fb.overflow);
}

fn strings() -> Vec<String> {
    let alphabet = ['"', '\'', '\\', '\n', '\r', '\t', ' ', '\0', '\u{1}', '\u{8}', '\u{c}', '\u{1f}', '\u{7f}', '#', 'a', 'é', '😀'];
    let mut v = vec![String::new()];
    let mut frontier = vec![String::new()];
    for _ in 0..3 {
        let mut next = Vec::new();
        for s in &frontier {
            for c in alphabet {
                let mut t = s.clone();
                t.push(c);
                next.push(t);
            }
        }
        v.extend(next.iter().cloned());
        frontier = next;
    }
    v.push("\"\"\"\"".into());
    v.push("''''a'''".into());
    v
}

#[test]
fn rerooted_toml_write_equals_the_real_crate() {
    use toml_write::{ToTomlKey as _, ToTomlValue as _};
    use tw::{ToTomlKey as _, ToTomlValue as _};
    let mut n = 0;
    for s in strings() {
        let real = toml_write::TomlStringBuilder::new(&s);
        let e2 = tw::TomlStringBuilder::new(&s);
        assert_eq!(real.as_default().to_toml_value(), e2.as_default().to_toml_value(), "{s:?}");
        assert_eq!(real.as_basic().to_toml_value(), e2.as_basic().to_toml_value(), "{s:?}");
        assert_eq!(real.as_ml_basic().to_toml_value(), e2.as_ml_basic().to_toml_value(), "{s:?}");
        assert_eq!(real.as_literal().map(|t| t.to_toml_value()), e2.as_literal().map(|t| t.to_toml_value()), "{s:?}");
        assert_eq!(real.as_ml_literal().map(|t| t.to_toml_value()), e2.as_ml_literal().map(|t| t.to_toml_value()), "{s:?}");
        assert_eq!(real.as_basic_pretty().map(|t| t.to_toml_value()), e2.as_basic_pretty().map(|t| t.to_toml_value()), "{s:?}");
        assert_eq!(real.as_ml_basic_pretty().map(|t| t.to_toml_value()), e2.as_ml_basic_pretty().map(|t| t.to_toml_value()), "{s:?}");
        let rk = toml_write::TomlKeyBuilder::new(&s);
        let ek = tw::TomlKeyBuilder::new(&s);
        assert_eq!(rk.as_default().to_toml_key(), ek.as_default().to_toml_key(), "{s:?}");
        assert_eq!(rk.as_basic().to_toml_key(), ek.as_basic().to_toml_key(), "{s:?}");
        assert_eq!(rk.as_unquoted().map(|t| t.to_toml_key()), ek.as_unquoted().map(|t| t.to_toml_key()), "{s:?}");
        assert_eq!(rk.as_literal().map(|t| t.to_toml_key()), ek.as_literal().map(|t| t.to_toml_key()), "{s:?}");
        n += 1;
    }
    assert!(n > 5000);
    for x in [0.0f64, -0.0, 1.0, -1.5, 1e16, 1e300, f64::MAX, f64::MIN_POSITIVE, f64::INFINITY, f64::NEG_INFINITY, f64::NAN, -f64::NAN, 0.1, 123456.789] {
        assert_eq!(toml_write::ToTomlValue::to_toml_value(&x), tw::ToTomlValue::to_toml_value(&x), "{x:?}");
        let y = x as f32;
        assert_eq!(toml_write::ToTomlValue::to_toml_value(&y), tw::ToTomlValue::to_toml_value(&y), "{y:?}");
    }
    for x in [i64::MIN, -1, 0, 1, i64::MAX] {
        assert_eq!(toml_write::ToTomlValue::to_toml_value(&x), tw::ToTomlValue::to_toml_value(&x));
    }
    assert_eq!(toml_write::ToTomlValue::to_toml_value(&true), tw::ToTomlValue::to_toml_value(&true));
}

#[test]
fn rerooted_toml_datetime_prints_like_the_real_crate() {
    let mut n = 0;
    let years = [0u16, 1, 99, 999, 1979, 2000, 9999];
    let nanos = [0u32, 1, 10, 100, 120_000_000, 123_456_789, 999_999_999, 500_000_000, 1_000, 100_000];
    let offsets: [Option<i16>; 9] = [None, Some(0), Some(1), Some(-1), Some(59), Some(-60), Some(90), Some(-1439), Some(1439)];
    for &year in &years {
        for month in [1u8, 9, 12] {
            for day in [1u8, 10, 31] {
                for (hour, minute, second) in [(0u8, 0u8, 0u8), (7, 32, 5), (23, 59, 60)] {
                    for &nanosecond in &nanos {
                        for (k, off) in offsets.iter().enumerate() {
                            for form in 0..4 {
                                let rd = toml_datetime::Date { year, month, day };
                                let rt = toml_datetime::Time { hour, minute, second, nanosecond };
                                let ro = match (off, k) {
                                    (None, _) => None,
                                    (Some(0), 1) => Some(toml_datetime::Offset::Z),
                                    (Some(m), _) => Some(toml_datetime::Offset::Custom { minutes: *m }),
                                };
                                let ed = td::Date { year, month, day };
                                let et = td::Time { hour, minute, second, nanosecond };
                                let eo = match (off, k) {
                                    (None, _) => None,
                                    (Some(0), 1) => Some(td::Offset::Z),
                                    (Some(m), _) => Some(td::Offset::Custom { minutes: *m }),
                                };
                                let (real, e2) = match form {
                                    0 => (
                                        toml_datetime::Datetime { date: Some(rd), time: Some(rt), offset: ro },
                                        td::Datetime { date: Some(ed), time: Some(et), offset: eo },
                                    ),
                                    1 => (
                                        toml_datetime::Datetime { date: Some(rd), time: Some(rt), offset: None },
                                        td::Datetime { date: Some(ed), time: Some(et), offset: None },
                                    ),
                                    2 => (
                                        toml_datetime::Datetime { date: Some(rd), time: None, offset: None },
                                        td::Datetime { date: Some(ed), time: None, offset: None },
                                    ),
                                    _ => (
                                        toml_datetime::Datetime { date: None, time: Some(rt), offset: None },
                                        td::Datetime { date: None, time: Some(et), offset: None },
                                    ),
                                };
                                assert_eq!(real.to_string(), e2.to_string());
                                n += 1;
                            }
                        }
                    }
                }
            }
        }
    }
    assert!(n > 50_000);
}

#[test]
fn rerooted_error_rendering_equals_the_real_crate() {
    let mut n = 0;
    let mut docs: Vec<String> = Vec::new();
    for v in toml_test_data::invalid() {
        if let Ok(s) = std::str::from_utf8(v.fixture) {
            docs.push(s.to_owned());
        }
    }
    for s in ["a = ", "a = 1\nb = \n", "é = é", "\"é\" = é", "a = 1\r\nb = ?\r\n", "\n\n[", "x", "a = \"\\u000é\"", "a=1\n\n\nb=2\n]"] {
        docs.push(s.to_owned());
    }
    for d in docs {
        let Err(real) = d.parse::<toml_edit::DocumentMut>() else { continue };
        let e2 = te::verif_make(real.message().to_owned(), Some(d.clone()), real.span());
        assert_eq!(real.to_string(), e2.to_string(), "{d:?}");
        n += 1;
    }
    assert!(n > 300, "{n}");
}
