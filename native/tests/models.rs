//! Environment models vs the std functions they replace
use refmodel::models::*;

#[test]
fn m2_replace_underscore_equals_std() {
    let alphabet = [b'_', b'0', b'9', b'a', b'F', b'x', b'+', b'-', b'.', b'e'];
    // all strings up to length 5 over the alphabet
    let mut n = 0u64;
    for len in 0..=5usize {
        let total = alphabet.len().pow(len as u32);
        for mut k in 0..total {
            let mut s = String::new();
            for _ in 0..len {
                s.push(alphabet[k % alphabet.len()] as char);
                k /= alphabet.len();
            }
            assert_eq!(replace_underscore(&s), s.replace('_', ""), "{s:?}");
            n += 1;
        }
    }
    let long = "1_2__3_".repeat(10);
    assert_eq!(replace_underscore(&long), long.replace('_', ""));
    assert!(n > 100_000);
}

#[test]
fn m7_from_utf8_equals_std_on_all_short_byte_strings() {
    // all byte strings of length <= 2, and length 3/4 over a class-representative alphabet
    let reps: [u8; 16] = [0x00, 0x0A, 0x41, 0x7F, 0x80, 0x8F, 0x90, 0x9F, 0xA0, 0xBF, 0xC0, 0xC2, 0xDF, 0xE0, 0xED, 0xF4];
    let extra: [u8; 6] = [0xEF, 0xF0, 0xF1, 0xF5, 0xFF, 0xC1];
    let mut all: Vec<u8> = reps.to_vec();
    all.extend_from_slice(&extra);
    let check = |v: &[u8]| {
        let a = from_utf8(v);
        let b = std::str::from_utf8(v);
        assert_eq!(a.is_ok(), b.is_ok(), "{v:x?}");
        if let (Ok(x), Ok(y)) = (a, b) {
            assert_eq!(x, y);
        }
        assert_eq!(refmodel::utf8_valid(v), b.is_ok(), "{v:x?}");
    };
    check(&[]);
    for a in 0..=255u8 {
        check(&[a]);
        for b in 0..=255u8 {
            check(&[a, b]);
        }
    }
    for &a in &all {
        for &b in &all {
            for &c in &all {
                check(&[a, b, c]);
                for &d in &all {
                    check(&[a, b, c, d]);
                }
            }
        }
    }
}

#[test]
fn m3_float_facts_equal_std_over_the_whole_shape() {
    let mut n = 0u64;
    for sign in ["", "+", "-"] {
        for d1 in 0..10 {
            for frac in -1..10i32 {
                for e_letter in ["e", "E"] {
                    for esign in ["", "+", "-"] {
                        for exp in 0..1000 {
                            for width in 1..=3usize {
                                if width < 3 && exp >= 10i32.pow(width as u32) {
                                    continue;
                                }
                                let mant = if frac < 0 { format!("{d1}") } else { format!("{d1}.{frac}") };
                                let s = format!("{sign}{mant}{e_letter}{esign}{exp:0width$}");
                                let std: f64 = s.parse().unwrap();
                                let f = float_facts(s.as_bytes()).expect("inside the shape");
                                assert!(!std.is_nan());
                                assert_eq!(f.negative, std.is_sign_negative(), "{s}");
                                assert_eq!(f.infinite, std.is_infinite(), "{s}");
                                assert_eq!(f.zero, std == 0.0, "{s}");
                                n += 1;
                            }
                        }
                    }
                }
            }
        }
    }
    // without exponent
    for s in ["0", "-0", "+9", "1.5", "-0.0", "9.9"] {
        let std: f64 = s.parse().unwrap();
        let f = float_facts(s.as_bytes()).unwrap();
        assert_eq!((f.negative, f.infinite, f.zero), (std.is_sign_negative(), std.is_infinite(), std == 0.0));
    }
    for s in ["", "e1", "1e", "1.e1", "1e1234", "1_0e1", "12e1", "1.23e1", "inf", "nan"] {
        assert!(float_facts(s.as_bytes()).is_none(), "{s}");
    }
    assert!(n > 1_000_000);
}

#[test]
fn m9_count_chars_equals_std() {
    let pieces = ["", "a", "\n", "é", "€", "😀", "ab", "éé", "a€b", "\u{80}", "\u{7ff}", "\u{800}", "\u{ffff}", "\u{10000}", "\u{10ffff}"];
    for a in pieces {
        for b in pieces {
            for c in pieces {
                let s = format!("{a}{b}{c}");
                assert_eq!(count_chars(&s), s.chars().count(), "{s:?}");
                let long = s.repeat(9);
                assert_eq!(count_chars(&long), long.chars().count());
            }
        }
    }
}

#[test]
fn m10_crlf_models_equal_std() {
    let alphabet = ['\r', '\n', 'a', '\'', 'é'];
    let mut all = vec![String::new()];
    let mut frontier = vec![String::new()];
    for _ in 0..6 {
        let mut next = Vec::new();
        for s in &frontier {
            for c in alphabet {
                let mut t = s.clone();
                t.push(c);
                next.push(t);
            }
        }
        all.extend(next.iter().cloned());
        frontier = next;
    }
    for s in &all {
        assert_eq!(contains_crlf(s), s.contains("\r\n"), "{s:?}");
        assert_eq!(replace_crlf_with_lf(s), s.replace("\r\n", "\n"), "{s:?}");
    }
    assert!(all.len() > 19_000);
}
