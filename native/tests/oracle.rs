//! Oracle validation (DESIGN.md 2.5): push the repository's own test inputs (the toml-test corpus
//! its dev-dependencies carry) through both the real kernels and the reference models, under the
//! same kernel contract the Kani harnesses assert:
//!   S1  Ok(n)            => the consumed prefix is in the rule's language, value as specified
//!   S2  input in language => accepted in full
//! Any disagreement here means the oracle (or the code) is wrong and blocks the checks.
use std::collections::HashSet;
use std::str::FromStr;

use refmodel::classes as rc;
use refmodel::datetime as rd;
use refmodel::numbers as rn;
use refmodel::strings as rs;
use refmodel::trivia as rt;
use toml_edit::verif_hooks as hooks;
use toml_edit::verif_hooks::Outcome;

fn corpus_docs() -> Vec<String> {
    let mut docs = Vec::new();
    for v in toml_test_data::valid() {
        if let Ok(s) = std::str::from_utf8(v.fixture) {
            docs.push(s.to_owned());
        }
    }
    for v in toml_test_data::invalid() {
        if let Ok(s) = std::str::from_utf8(v.fixture) {
            docs.push(s.to_owned());
        }
    }
    // literals of the repository's own unit tests (parser/numbers.rs, datetime.rs, strings.rs)
    for s in [
        "+99", "42", "0", "-17", "1_000", "5_349_221", "1_2_3_4_5", "0xF", "0o0_755", "0b1_0_1", "0xDEADBEEF",
        "+1.0", "3.1419", "-0.01", "5e+22", "1e6", "-2E-2", "6.626e-34", "9_224_617.445_991_228_313", "-1.7976931348623157e+308",
        "1979-05-27T07:32:00Z", "1979-05-27T00:32:00-07:00", "1979-05-27T00:32:00.999999-07:00", "1979-05-27 07:32:00Z",
        "1979-05-27T07:32:00", "1979-05-27T00:32:00.999999", "1979-05-27", "07:32:00", "00:32:00.999999", "24:00:00",
        "1979-05-27T07:32:00+00:99", "1979-05-27T07:32:00+24:00", "2000-02-30", "1900-02-29", "2000-02-29", "00:00:60",
        r#""I'm a string. \"You can quote me\". Name\tJosé\nLocation\tSF. \U0002070E""#,
        "\"\"\"\nRoses are red\nViolets are blue\"\"\"", r#"""" \""" """"#, r#"""" \\""""#, "'''\nThe first newline is\ntrimmed'''",
        "\"\"\"a\\\n   b\"\"\"", "\"\"\"a\\  \r\n \r\n  b\"\"\"", "'''a''b'''''", "\"\"\"a\"\"b\"\"\"\"\"",
    ] {
        docs.push(s.to_owned());
    }
    docs
}

/// every substring (on character boundaries) of every line, up to `max` bytes, de-duplicated
fn substrings(max: usize) -> Vec<String> {
    let mut set = HashSet::new();
    for d in corpus_docs() {
        for line in d.split_inclusive('\n') {
            let idx: Vec<usize> = line.char_indices().map(|(i, _)| i).chain(std::iter::once(line.len())).collect();
            for (a, &start) in idx.iter().enumerate() {
                for &end in &idx[a..] {
                    if end - start > max {
                        break;
                    }
                    set.insert(line[start..end].to_owned());
                }
            }
        }
    }
    let mut v: Vec<String> = set.into_iter().collect();
    v.sort();
    v
}

fn lang<O>(name: &str, s: &str, out: Outcome<O>, r: impl Fn(&[u8]) -> bool) {
    let b = s.as_bytes();
    match out {
        Outcome::Ok(_, n) => assert!(r(&b[..n]), "{name}: accepted {:?} of {s:?}, not in the language", &s[..n]),
        _ => assert!(!r(b), "{name}: rejected {s:?}, which is in the language"),
    }
}

#[test]
fn kernels_agree_with_reference_on_corpus_substrings() {
    let subs = substrings(12);
    assert!(subs.len() > 50_000, "corpus too small: {}", subs.len());
    for s in &subs {
        let b = s.as_bytes();
        lang("ws", s, hooks::ws(s), rt::r_ws);
        lang("newline", s, hooks::newline(s), rt::r_newline);
        lang("comment", s, hooks::comment(s), rt::r_comment);
        lang("line_ending", s, hooks::line_ending(s), rt::r_line_ending);
        lang("ws_newline", s, hooks::ws_newline(s), rt::r_ws_newline);
        lang("ws_newlines", s, hooks::ws_newlines(s), rt::r_ws_newlines);
        lang("ws_comment_newline", s, hooks::ws_comment_newline(s), rt::r_ws_comment_newline);
        match hooks::line_trailing(s) {
            Outcome::Ok(span, n) => assert_eq!(rt::r_line_trailing(&b[..n]), Some(span.end), "line_trailing {s:?}"),
            _ => assert!(rt::r_line_trailing(b).is_none(), "line_trailing {s:?}"),
        }
        lang("dec_int", s, hooks::dec_int(s), rn::r_dec_int);
        lang("hex_int", s, hooks::hex_int(s), rn::r_hex_int);
        lang("oct_int", s, hooks::oct_int(s), rn::r_oct_int);
        lang("bin_int", s, hooks::bin_int(s), rn::r_bin_int);
        lang("zero_prefixable_int", s, hooks::zero_prefixable_int(s), rn::r_zero_prefixable_int);
        lang("frac", s, hooks::frac(s), rn::r_frac);
        lang("exp", s, hooks::exp(s), rn::r_exp);
        lang("float_", s, hooks::float_(s), rn::r_float_syntax);
        lang("true", s, hooks::true_(s), rn::r_true);
        lang("false", s, hooks::false_(s), rn::r_false);
        lang("unquoted_key", s, hooks::unquoted_key(s), rs::r_unquoted_key);
        match hooks::integer(s) {
            Outcome::Ok(v, n) => {
                assert!(rn::r_integer(&b[..n]), "integer {s:?}");
                assert_eq!(rn::v_integer(&b[..n]), v as i128, "integer {s:?}");
            }
            _ => assert!(!(rn::r_integer(b) && rn::fits_i64(rn::v_integer(b))), "integer {s:?}"),
        }
        match hooks::special_float(s) {
            Outcome::Ok(v, n) => match rn::v_special_float(&b[..n]) {
                Some(rn::Special::Inf { negative }) => assert!(v.is_infinite() && v.is_sign_negative() == negative),
                Some(rn::Special::Nan { negative }) => assert!(v.is_nan() && v.is_sign_negative() == negative),
                None => panic!("special_float {s:?}"),
            },
            _ => assert!(!rn::r_special_float(b), "special_float {s:?}"),
        }
        match hooks::float(s) {
            Outcome::Ok(v, n) => {
                assert!(rn::r_float(&b[..n]), "float {s:?}");
                if rn::r_float_syntax(&b[..n]) {
                    assert!(v.is_finite(), "float {s:?} -> {v}");
                    assert_eq!(v.to_bits(), s[..n].replace('_', "").parse::<f64>().unwrap().to_bits());
                }
            }
            _ => {
                // only refusal allowed for a float literal: magnitude overflow
                if rn::r_float_syntax(b) {
                    assert!(s.replace('_', "").parse::<f64>().unwrap().is_infinite(), "float {s:?} refused");
                } else {
                    assert!(!rn::r_special_float(b), "float {s:?} refused");
                }
            }
        }
        match hooks::escape_seq_char(s) {
            Outcome::Ok(c, n) => assert_eq!(rs::v_escape_seq_char(&b[..n]), Some(c as u32), "escape {s:?}"),
            _ => assert!(rs::v_escape_seq_char(b).is_none(), "escape {s:?}"),
        }
        match hooks::hexescape4(s) {
            Outcome::Ok(c, n) => assert_eq!(rs::v_hexescape(&b[..n], 4), Some(c as u32)),
            _ => assert!(rs::v_hexescape(b, 4).is_none()),
        }
        match hooks::hexescape8(s) {
            Outcome::Ok(c, n) => assert_eq!(rs::v_hexescape(&b[..n], 8), Some(c as u32)),
            _ => assert!(rs::v_hexescape(b, 8).is_none()),
        }
        // date-time kernels
        macro_rules! two {
            ($k:ident, $r:path) => {
                match hooks::$k(s) {
                    Outcome::Ok(v, n) => assert_eq!($r(&b[..n]), Some(v), concat!(stringify!($k), " {:?}"), s),
                    _ => assert!($r(b).is_none(), concat!(stringify!($k), " {:?}"), s),
                }
            };
        }
        two!(time_hour, rd::v_time_hour);
        two!(time_minute, rd::v_time_minute);
        two!(time_second, rd::v_time_second);
        two!(date_month, rd::v_date_month);
        two!(date_mday, rd::v_date_mday);
        two!(date_fullyear, rd::v_date_fullyear);
        two!(time_secfrac, rd::v_time_secfrac);
        match hooks::time_offset(s) {
            Outcome::Ok(v, n) => assert!(eq_offset(v, rd::v_time_offset(&b[..n]).expect("offset")), "time_offset {s:?}"),
            _ => assert!(rd::v_time_offset(b).is_none(), "time_offset {s:?}"),
        }
    }
}

fn eq_offset(a: toml_datetime::Offset, b: rd::ROffset) -> bool {
    match (a, b) {
        (toml_datetime::Offset::Z, rd::ROffset::Z) => true,
        (toml_datetime::Offset::Custom { minutes }, rd::ROffset::Custom(m)) => minutes == m,
        _ => false,
    }
}

fn eq_datetime(a: &toml_datetime::Datetime, r: &rd::RDatetime) -> bool {
    let d = match (a.date, r.date) {
        (None, None) => true,
        (Some(d), Some(rd)) => d.year == rd.year && d.month == rd.month && d.day == rd.day,
        _ => false,
    };
    let t = match (a.time, r.time) {
        (None, None) => true,
        (Some(t), Some(rt)) => t.hour == rt.hour && t.minute == rt.minute && t.second == rt.second && t.nanosecond == rt.nanosecond,
        _ => false,
    };
    let o = match (a.offset, r.offset) {
        (None, None) => true,
        (Some(x), Some(y)) => eq_offset(x, y),
        _ => false,
    };
    d && t && o
}

#[test]
fn date_times_agree_on_corpus_substrings() {
    let subs = substrings(36);
    let mut accepted = 0;
    for s in &subs {
        // only substrings that look like date-times are interesting; still run everything <= 36
        let b = s.as_bytes();
        let reference = rd::v_date_time(b);
        // toml_edit grammar kernel: S1/S2
        match hooks::date_time(s) {
            Outcome::Ok(v, n) => {
                let r = rd::v_date_time(&b[..n]).unwrap_or_else(|| panic!("date_time accepted {:?}", &s[..n]));
                assert!(eq_datetime(&v, &r), "date_time fields {s:?}");
            }
            _ => assert!(reference.is_none(), "date_time refused {s:?}"),
        }
        // standalone parser: exact agreement on the whole string
        match (toml_datetime::Datetime::from_str(s), reference) {
            (Ok(v), Some(r)) => {
                assert!(eq_datetime(&v, &r), "from_str fields {s:?}");
                accepted += 1;
                // printer: canonical text parses back to the same value with both parsers
                let text = v.to_string();
                assert_eq!(toml_datetime::Datetime::from_str(&text).ok(), Some(v), "print/parse {s:?} -> {text:?}");
                assert!(rd::v_date_time(text.as_bytes()).is_some(), "printed text {text:?} not in the grammar");
            }
            (Err(_), None) => {}
            (Ok(_), None) => panic!("from_str accepts {s:?}"),
            (Err(_), Some(_)) => panic!("from_str rejects {s:?}"),
        }
    }
    assert!(accepted > 100, "only {accepted} date-times in the corpus substrings");
}

fn walk_value(v: &toml_edit::Value, check: &mut dyn FnMut(&str, &str)) {
    match v {
        toml_edit::Value::String(f) => {
            if let Some(raw) = f.as_repr().and_then(|r| r.as_raw().as_str()) {
                check(raw, f.value());
            }
        }
        toml_edit::Value::Array(a) => {
            for x in a.iter() {
                walk_value(x, check);
            }
        }
        toml_edit::Value::InlineTable(t) => {
            for (k, x) in t.iter() {
                let _ = k;
                walk_value(x, check);
            }
        }
        _ => {}
    }
}

fn walk_item(i: &toml_edit::Item, check: &mut dyn FnMut(&str, &str)) {
    match i {
        toml_edit::Item::Value(v) => walk_value(v, check),
        toml_edit::Item::Table(t) => {
            for (_, x) in t.iter() {
                walk_item(x, check);
            }
        }
        toml_edit::Item::ArrayOfTables(a) => {
            for t in a.iter() {
                for (_, x) in t.iter() {
                    walk_item(x, check);
                }
            }
        }
        toml_edit::Item::None => {}
    }
}

/// the reference string decoders agree with the real parser on every string value of every
/// corpus document the real parser accepts
#[test]
fn string_decoders_agree_with_the_real_parser() {
    let mut n = 0;
    for d in corpus_docs() {
        let Ok(doc) = d.parse::<toml_edit::DocumentMut>() else { continue };
        let mut check = |raw: &str, decoded: &str| {
            let rb = raw.as_bytes();
            let got: Option<refmodel::Buf<4096>> = if raw.starts_with("\"\"\"") {
                rs::decode_ml_basic(rb, true)
            } else if raw.starts_with("'''") {
                rs::decode_ml_literal(rb, true)
            } else if raw.starts_with('"') {
                rs::decode_basic(rb)
            } else {
                rs::decode_literal(rb)
            };
            let got = got.unwrap_or_else(|| panic!("reference decoder rejects {raw:?}"));
            assert!(got.eq_bytes(decoded.as_bytes()), "decoder disagrees on {raw:?}: {:?} vs {decoded:?}", String::from_utf8_lossy(got.as_slice()));
            n += 1;
        };
        walk_item(doc.as_item(), &mut check);
    }
    assert!(n > 300, "only {n} strings");
}

/// string kernels on corpus substrings: literal / basic / ml strings as whole tokens
#[test]
fn string_tokens_agree_on_corpus_substrings() {
    let subs = substrings(14);
    for s in &subs {
        let b = s.as_bytes();
        match hooks::literal_string(s) {
            Outcome::Ok(v, n) => {
                let r: refmodel::Buf<64> = rs::decode_literal(&b[..n]).unwrap_or_else(|| panic!("literal {s:?}"));
                assert!(r.eq_bytes(v.as_bytes()));
            }
            _ => assert!(rs::decode_literal::<64>(b).is_none(), "literal refused {s:?}"),
        }
        match hooks::basic_string(s) {
            Outcome::Ok(v, n) => {
                let r: refmodel::Buf<64> = rs::decode_basic(&b[..n]).unwrap_or_else(|| panic!("basic {s:?}"));
                assert!(r.eq_bytes(v.as_bytes()), "basic {s:?}");
            }
            _ => assert!(rs::decode_basic::<64>(b).is_none(), "basic refused {s:?}"),
        }
        match hooks::ml_basic_string(s) {
            Outcome::Ok(v, n) => {
                let r: refmodel::Buf<64> = rs::decode_ml_basic(&b[..n], true).unwrap_or_else(|| panic!("ml-basic {s:?}"));
                assert!(r.eq_bytes(v.as_bytes()), "ml-basic {s:?}");
            }
            _ => assert!(rs::decode_ml_basic::<64>(b, true).is_none(), "ml-basic refused {s:?}"),
        }
        match hooks::ml_literal_string(s) {
            Outcome::Ok(v, n) => {
                let r: refmodel::Buf<64> = rs::decode_ml_literal(&b[..n], true).unwrap_or_else(|| panic!("ml-literal {s:?}"));
                assert!(r.eq_bytes(v.as_bytes()), "ml-literal {s:?}");
            }
            _ => assert!(rs::decode_ml_literal::<64>(b, true).is_none(), "ml-literal refused {s:?}"),
        }
    }
}

/// byte classes, all 256 values (the Kani harness decides the same statement symbolically)
#[test]
fn classes_agree() {
    use hooks::Class::*;
    for b in 0..=255u8 {
        assert_eq!(hooks::class_contains(Wschar, b), rc::r_wschar(b));
        assert_eq!(hooks::class_contains(NonAscii, b), rc::r_non_ascii(b));
        assert_eq!(hooks::class_contains(NonEol, b), rc::r_non_eol(b));
        assert_eq!(hooks::class_contains(BasicUnescaped, b), rc::r_basic_unescaped(b));
        assert_eq!(hooks::class_contains(MlbUnescaped, b), rc::r_mlb_unescaped(b));
        assert_eq!(hooks::class_contains(LiteralChar, b), rc::r_literal_char(b));
        assert_eq!(hooks::class_contains(MllChar, b), rc::r_mll_char(b));
        assert_eq!(hooks::class_contains(UnquotedChar, b), rc::r_unquoted_char(b));
        assert_eq!(hooks::class_contains(Hexdig, b), rc::r_hexdig(b));
        assert_eq!(hooks::class_contains(TimeDelim, b), rc::r_time_delim(b));
    }
}

/// line/column on the corpus: every index on a character boundary of every document
#[test]
fn linecol_agrees_on_corpus() {
    let mut n = 0;
    for d in corpus_docs() {
        if d.len() > 400 {
            continue;
        }
        let b = d.as_bytes();
        for i in 0..=b.len() {
            if !d.is_char_boundary(i) {
                continue;
            }
            assert_eq!(hooks::translate_position(b, i), refmodel::linecol::r_linecol(b, i), "doc {d:?} index {i}");
            n += 1;
        }
    }
    assert!(n > 10_000);
}
