// see tests/
