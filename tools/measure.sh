#!/bin/bash
# usage: measure.sh <timeout> <harness-filter>...   (ad-hoc probe; not part of the registered checks)
T=$1; shift
ARGS=()
for h in "$@"; do ARGS+=(--harness "$h"); done
cd /verif/kani
export CARGO_NET_OFFLINE=true RUSTFLAGS="--cfg toml_verif"
OUT=/verif/.build/measure-$$.json
( ulimit -v 24000000; cargo kani --target-dir /verif/.build/kani-t -j 14 --output-format terse -Z unstable-options -Z stubbing --harness-timeout $T --export-json $OUT "${ARGS[@]}" > /verif/.build/measure-$$.log 2>&1 )
python3 - "$OUT" <<'PY'
import json,sys
d=json.load(open(sys.argv[1]))
st={c['harness_id']:c.get('cbmc_stats',{}) for c in d.get('cbmc',[])}
for r in d['verification_results']['results']:
    pd=[p for p in d['property_details'] if p['harness_id']==r['harness_id']]
    pd=pd[0]['property_details'] if pd else {}
    failed=[c['description'] for c in r.get('checks',[]) if c['status'] not in ('Success','Unreachable','Satisfied')]
    print(f"{r['harness_id']:55s} {r['status']:10s} {r['duration_ms']/1000:8.1f}s total={pd.get('total_properties')} fail={pd.get('failed')} sat={pd.get('satisfied')} unsat={pd.get('unsatisfiable')} undet={pd.get('undetermined')}", failed[:4])
PY
echo "log: /verif/.build/measure-$$.log"
