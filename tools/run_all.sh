#!/bin/bash
# usage: run_all.sh quick|thorough   -- run every registered check in sequence, print a summary
TIER=${1:-quick}
cd /verif
for p in C05 C10 C01 C02 C04 C11 C12 C15; do
  s=$(date +%s)
  ./check $p --tier $TIER > .build/all-$p-$TIER.out 2>&1
  rc=$?
  echo "$p tier=$TIER exit=$rc wall=$(( $(date +%s) - s ))s  $(grep -c ' ok ' .build/all-$p-$TIER.out) ok; $(grep -E 'VIOLATION|INCONCLUSIVE|KNOWN' .build/all-$p-$TIER.out | head -3 | tr '\n' ' ')"
done
