#!/bin/bash
# usage: confirm_seed.sh <worktree> <demo-file> <dest-crate-tests-dir> <cargo -p pkg> <test-name>
# Confirms independently: demo fails with the change, passes without it, full suite passes with it.
WT=$1; DEMO=$2; DEST=$3; PKG=$4; TEST=$5
cd $WT || exit 9
git diff -- crates > /tmp/confirm-$$.diff
cp seed/$DEMO $DEST/$TEST.rs
echo "== with change: demo"; cargo test -p $PKG --offline --test $TEST 2>&1 | grep -E "^test result|FAILED|panicked" | head -5
git apply -R /tmp/confirm-$$.diff
echo "== without change: demo"; cargo test -p $PKG --offline --test $TEST 2>&1 | grep -E "^test result|FAILED|panicked" | head -5
git apply /tmp/confirm-$$.diff
rm $DEST/$TEST.rs
echo "== with change: full suite"; cargo test --workspace --offline --no-fail-fast 2>&1 | grep -E "^test result" | awk '{p+=$4; f+=$6} END {print "passed",p,"failed",f}'
git status --short | head
