#!/usr/bin/env python3
"""Environment model M1 (DESIGN.md 2.3): generate `winnow-lite`, a copy of the winnow release that
/repo's Cargo.lock pins, in which `winnow::error::ContextError` carries no payload.

Only the block of `src/error.rs` that defines `ContextError` and its impls is replaced: the struct
becomes zero-sized, `add_context` drops the context, `from_external_error` drops the cause.
Everything that decides *whether* a parser succeeds, what it consumes and what it returns is the
unmodified winnow source.  The copy is used by the Kani harness workspace only
(`[patch.crates-io]`); replay and native validation use the real crate.

Fails (exit 2) if the pinned winnow source does not have the expected shape.
"""
import glob, os, re, shutil, sys

OUT = sys.argv[1] if len(sys.argv) > 1 else "/verif/.build/winnow-lite"
LOCK = "/repo/Cargo.lock"

def die(msg):
    print("gen_winnow_lite: " + msg, file=sys.stderr)
    sys.exit(2)

def pinned_version():
    txt = open(LOCK).read()
    m = re.search(r'name = "winnow"\nversion = "([^"]+)"', txt)
    if not m:
        die("winnow not found in " + LOCK)
    return m.group(1)

LITE = r'''
/// M1 (verification model): payload-free `ContextError`
#[derive(Debug)]
pub struct ContextError<C = StrContext> {
    context: core::marker::PhantomData<C>,
}

impl<C> ContextError<C> {
    /// Create an empty error
    #[inline]
    pub fn new() -> Self {
        Self {
            context: core::marker::PhantomData,
        }
    }

    /// Access context from [`Parser::context`] (always empty in this model)
    #[inline]
    #[cfg(feature = "alloc")]
    pub fn context(&self) -> impl Iterator<Item = &C> {
        core::iter::empty()
    }

    /// Originating [`std::error::Error`] (never recorded in this model)
    #[inline]
    #[cfg(feature = "std")]
    pub fn cause(&self) -> Option<&(dyn std::error::Error + Send + Sync + 'static)> {
        None
    }
}

impl<C> Clone for ContextError<C> {
    fn clone(&self) -> Self {
        Self::new()
    }
}

impl<C> Default for ContextError<C> {
    #[inline]
    fn default() -> Self {
        Self::new()
    }
}

impl<I: Stream, C> ParserError<I> for ContextError<C> {
    type Inner = Self;

    #[inline]
    fn from_input(_input: &I) -> Self {
        Self::new()
    }

    #[inline(always)]
    fn into_inner(self) -> Result<Self::Inner, Self> {
        Ok(self)
    }
}

impl<C, I: Stream> AddContext<I, C> for ContextError<C> {
    #[inline]
    fn add_context(
        self,
        _input: &I,
        _token_start: &<I as Stream>::Checkpoint,
        context: C,
    ) -> Self {
        core::mem::forget(context);
        self
    }
}

#[cfg(feature = "unstable-recover")]
#[cfg(feature = "std")]
impl<I: Stream, C> FromRecoverableError<I, Self> for ContextError<C> {
    #[inline]
    fn from_recoverable_error(
        _token_start: &<I as Stream>::Checkpoint,
        _err_start: &<I as Stream>::Checkpoint,
        _input: &I,
        e: Self,
    ) -> Self {
        e
    }
}

#[cfg(feature = "std")]
impl<C, I, E: std::error::Error + Send + Sync + 'static> FromExternalError<I, E>
    for ContextError<C>
{
    #[inline]
    fn from_external_error(_input: &I, e: E) -> Self {
        core::mem::forget(e);
        Self::new()
    }
}

#[cfg(not(feature = "std"))]
impl<C, I, E: Send + Sync + 'static> FromExternalError<I, E> for ContextError<C> {
    #[inline]
    fn from_external_error(_input: &I, _e: E) -> Self {
        Self::new()
    }
}

impl<C: core::cmp::PartialEq> core::cmp::PartialEq for ContextError<C> {
    fn eq(&self, _other: &Self) -> bool {
        true
    }
}

impl crate::lib::std::fmt::Display for ContextError<StrContext> {
    fn fmt(&self, _f: &mut crate::lib::std::fmt::Formatter<'_>) -> crate::lib::std::fmt::Result {
        Ok(())
    }
}

'''

def main():
    ver = pinned_version()
    srcs = glob.glob(os.path.expanduser(f"~/.cargo/registry/src/*/winnow-{ver}"))
    if not srcs:
        die(f"winnow-{ver} not in the cargo registry")
    src = srcs[0]
    if os.path.isdir(OUT):
        shutil.rmtree(OUT)
    shutil.copytree(src, OUT, ignore=shutil.ignore_patterns(".cargo-ok", "*.orig"))
    p = os.path.join(OUT, "src/error.rs")
    s = open(p).read()
    start_pat = "#[derive(Debug)]\npub struct ContextError<C = StrContext> {"
    end_pat = "impl<C> ErrorConvert<ContextError<C>> for ContextError<C> {"
    if s.count(start_pat) != 1 or s.count(end_pat) != 1:
        die("unexpected shape of winnow/src/error.rs (ContextError block markers)")
    a = s.index(start_pat)
    b = s.index(end_pat)
    block = s[a:b]
    # the block must be exactly the things we re-implement: guard against silently dropping more
    impls = re.findall(r"^impl[^\n]*", block, flags=re.M)
    expect = 10
    if len(impls) != expect:
        die(f"ContextError block has {len(impls)} impls, expected {expect}: {impls}")
    s = s[:a] + LITE.lstrip("\n") + s[b:]
    open(p, "w").write(s)
    print(f"winnow-lite {ver} written to {OUT}")

if __name__ == "__main__":
    main()
