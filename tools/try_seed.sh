#!/bin/bash
# usage: try_seed.sh <seed-dir-name> <PROP> [check args...]   -- apply a seeded change to /repo, run a check, undo
S=$1; P=$2; shift 2
cd /repo || exit 9
if [ -n "$(git status --porcelain --untracked-files=no)" ]; then echo "/repo not clean"; exit 9; fi
git apply /verif/seeded/$S/patch.diff || exit 9
cd /verif
./check $P --no-evidence "$@" > /verif/.build/seed-$S-$P.out 2>&1
rc=$?
git -C /repo checkout -- .
echo "seed=$S prop=$P exit=$rc"; grep -E "VIOLATION|KNOWN|INCONCLUSIVE|^OK|failed|harness " /verif/.build/seed-$S-$P.out | head -8
