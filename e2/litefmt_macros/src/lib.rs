//! `lite_write!(dst, "fmt", args..)` / `lite_writeln!(dst[, "fmt", args..])`
//!
//! Same surface syntax as `core::write!` for the subset of format specs that occur in the
//! re-rooted sources (`{}`, `{name}`, `{:0N}`, `{name:0N}`, `{:0NX}`); anything else is a compile
//! error (the check then exits 2, never a VIOLATION).  The expansion is a labelled block of
//! `core::fmt::Write::write_str` and `litefmt::Lite*` trait calls evaluating to `core::fmt::Result`.
extern crate proc_macro;
use proc_macro::{Delimiter, Group, Ident, Literal, Punct, Spacing, Span, TokenStream, TokenTree};

#[proc_macro]
pub fn lite_write(input: TokenStream) -> TokenStream {
    expand(input, false)
}

#[proc_macro]
pub fn lite_writeln(input: TokenStream) -> TokenStream {
    expand(input, true)
}

fn compile_error(msg: &str) -> TokenStream {
    format!("compile_error!({msg:?})").parse().unwrap()
}

/// split the macro input at top-level commas
fn split_args(input: TokenStream) -> Vec<Vec<TokenTree>> {
    let mut out = vec![Vec::new()];
    for t in input {
        match &t {
            TokenTree::Punct(p) if p.as_char() == ',' => out.push(Vec::new()),
            _ => out.last_mut().unwrap().push(t),
        }
    }
    if out.last().map(|v| v.is_empty()).unwrap_or(false) {
        out.pop();
    }
    out
}

/// value of a plain (non-raw) string literal token
fn unescape(lit: &str) -> Option<String> {
    let inner = lit.strip_prefix('"')?.strip_suffix('"')?;
    let mut out = String::new();
    let mut it = inner.chars();
    while let Some(c) = it.next() {
        if c != '\\' {
            out.push(c);
            continue;
        }
        match it.next()? {
            'n' => out.push('\n'),
            't' => out.push('\t'),
            'r' => out.push('\r'),
            '\\' => out.push('\\'),
            '"' => out.push('"'),
            '\'' => out.push('\''),
            '0' => out.push('\0'),
            _ => return None,
        }
    }
    Some(out)
}

enum Piece {
    Lit(String),
    /// (argument: None = next positional, Some(name) = inline identifier; spec)
    Arg(Option<String>, String),
}

fn parse_format(f: &str) -> Result<Vec<Piece>, String> {
    let mut pieces = Vec::new();
    let mut lit = String::new();
    let cs: Vec<char> = f.chars().collect();
    let mut i = 0;
    while i < cs.len() {
        let c = cs[i];
        if c == '{' {
            if i + 1 < cs.len() && cs[i + 1] == '{' {
                lit.push('{');
                i += 2;
                continue;
            }
            let mut j = i + 1;
            while j < cs.len() && cs[j] != '}' {
                j += 1;
            }
            if j == cs.len() {
                return Err("unterminated `{` in format string".into());
            }
            let body: String = cs[i + 1..j].iter().collect();
            let (name, spec) = match body.split_once(':') {
                Some((n, s)) => (n.to_string(), s.to_string()),
                None => (body.clone(), String::new()),
            };
            if !lit.is_empty() {
                pieces.push(Piece::Lit(std::mem::take(&mut lit)));
            }
            let name = if name.is_empty() { None } else { Some(name) };
            if let Some(n) = &name {
                if !n.chars().all(|c| c.is_alphanumeric() || c == '_') || n.chars().next().unwrap().is_ascii_digit() {
                    return Err(format!("unsupported argument reference `{n}`"));
                }
            }
            pieces.push(Piece::Arg(name, spec));
            i = j + 1;
        } else if c == '}' {
            if i + 1 < cs.len() && cs[i + 1] == '}' {
                lit.push('}');
                i += 2;
                continue;
            }
            return Err("unmatched `}` in format string".into());
        } else {
            lit.push(c);
            i += 1;
        }
    }
    if !lit.is_empty() {
        pieces.push(Piece::Lit(lit));
    }
    Ok(pieces)
}

fn ts(s: &str) -> TokenStream {
    s.parse().unwrap()
}

fn group(delim: Delimiter, inner: TokenStream) -> TokenTree {
    TokenTree::Group(Group::new(delim, inner))
}

fn expand(input: TokenStream, newline: bool) -> TokenStream {
    let args = split_args(input);
    if args.is_empty() {
        return compile_error("lite_write!: missing destination");
    }
    let dst: TokenStream = args[0].iter().cloned().collect();
    let mut pieces = Vec::new();
    let mut positional: Vec<TokenStream> = Vec::new();
    // inline `{name}` arguments resolve where the format string was written (hygiene)
    let mut user_span = Span::call_site();
    if args.len() >= 2 {
        let fmt_tokens = &args[1];
        // a literal forwarded through `$f:literal` arrives inside a None-delimited group
        let unwrapped: Vec<TokenTree> = match fmt_tokens.as_slice() {
            [TokenTree::Group(g)] if g.delimiter() == Delimiter::None => g.stream().into_iter().collect(),
            other => other.to_vec(),
        };
        let lit = match unwrapped.as_slice() {
            [TokenTree::Literal(l)] => {
                user_span = l.span();
                l.to_string()
            }
            _ => return compile_error("lite_write!: format string must be a plain string literal"),
        };
        let Some(f) = unescape(&lit) else {
            return compile_error("lite_write!: unsupported string literal form");
        };
        match parse_format(&f) {
            Ok(p) => pieces = p,
            Err(e) => return compile_error(&format!("lite_write!: {e}")),
        }
        for a in &args[2..] {
            positional.push(a.iter().cloned().collect());
        }
    } else if !newline {
        return compile_error("lite_write!: missing format string");
    }
    if newline {
        pieces.push(Piece::Lit("\n".into()));
    }

    // '__lw: { step; step; ...; ::core::result::Result::Ok(()) }
    let mut body = TokenStream::new();
    let mut next_pos = 0;
    for p in pieces {
        let call: TokenStream = match p {
            Piece::Lit(s) => {
                let mut t = ts("::core::fmt::Write::write_str");
                let mut a = TokenStream::new();
                a.extend(ts("&mut *"));
                a.extend([group(Delimiter::Parenthesis, dst.clone())]);
                a.extend([TokenTree::Punct(Punct::new(',', Spacing::Alone))]);
                a.extend([TokenTree::Literal(Literal::string(&s))]);
                t.extend([group(Delimiter::Parenthesis, a)]);
                t
            }
            Piece::Arg(name, spec) => {
                let arg: TokenStream = match name {
                    Some(n) => {
                        let id = Ident::new(&n, user_span);
                        [TokenTree::Ident(id)].into_iter().collect()
                    }
                    None => {
                        if next_pos >= positional.len() {
                            return compile_error("lite_write!: not enough positional arguments");
                        }
                        next_pos += 1;
                        positional[next_pos - 1].clone()
                    }
                };
                if spec.is_empty() {
                    // { use ViaLite, ViaDisplay; (&Wrap(&(arg))).lite_go(&mut *(dst)) }
                    let mut inner = ts("#[allow(unused_imports)] use ::litefmt::{ViaLite as _, ViaDisplay as _};");
                    let mut wrap_args = ts("&");
                    wrap_args.extend([group(Delimiter::Parenthesis, arg)]);
                    let mut recv = ts("&::litefmt::Wrap");
                    recv.extend([group(Delimiter::Parenthesis, wrap_args)]);
                    inner.extend([group(Delimiter::Parenthesis, recv)]);
                    inner.extend(ts(".lite_go"));
                    let mut a = ts("&mut *");
                    a.extend([group(Delimiter::Parenthesis, dst.clone())]);
                    inner.extend([group(Delimiter::Parenthesis, a)]);
                    let call: TokenStream = [group(Delimiter::Brace, inner)].into_iter().collect();
                    body.extend(ts("if let ::core::result::Result::Err(__e) ="));
                    body.extend(call);
                    body.extend([group(Delimiter::Brace, ts("break '__lw ::core::result::Result::Err(__e);"))]);
                    continue;
                }
                // supported: {:0N} {:N} {:>N} {:<N} (decimal integers), {:0NX} {:0Nx} {:X} {:x} (hex)
                let (func, extra): (&str, Option<usize>) = if let Some(w) = spec.strip_prefix('0').and_then(|r| r.strip_suffix('X')).and_then(|w| w.parse::<usize>().ok()) {
                    ("::litefmt::LiteUpperHex::lite_upper_hex_pad0", Some(w))
                } else if let Some(w) = spec.strip_prefix('0').and_then(|r| r.strip_suffix('x')).and_then(|w| w.parse::<usize>().ok()) {
                    ("::litefmt::LiteUpperHex::lite_lower_hex_pad0", Some(w))
                } else if spec == "X" {
                    ("::litefmt::LiteUpperHex::lite_upper_hex_pad0", Some(0))
                } else if spec == "x" {
                    ("::litefmt::LiteUpperHex::lite_lower_hex_pad0", Some(0))
                } else if let Some(w) = spec.strip_prefix('0').and_then(|w| w.parse::<usize>().ok()) {
                    ("::litefmt::LiteDecPad0::lite_dec_pad0", Some(w))
                } else if let Some(w) = spec.strip_prefix('<').and_then(|w| w.parse::<usize>().ok()) {
                    ("::litefmt::LiteDecPad0::lite_dec_pad_left_aligned", Some(w))
                } else if let Some(w) = spec.strip_prefix('>').unwrap_or(&spec).parse::<usize>().ok().filter(|_| !spec.starts_with('0')) {
                    ("::litefmt::LiteDecPad0::lite_dec_pad_space", Some(w))
                } else {
                    return compile_error(&format!("lite_write!: unsupported format spec `{{:{spec}}}`"));
                };
                let mut t = ts(func);
                let mut a = TokenStream::new();
                a.extend(ts("&"));
                a.extend([group(Delimiter::Parenthesis, arg)]);
                a.extend([TokenTree::Punct(Punct::new(',', Spacing::Alone))]);
                if let Some(w) = extra {
                    a.extend([TokenTree::Literal(Literal::usize_suffixed(w))]);
                    a.extend([TokenTree::Punct(Punct::new(',', Spacing::Alone))]);
                }
                a.extend(ts("&mut *"));
                a.extend([group(Delimiter::Parenthesis, dst.clone())]);
                t.extend([group(Delimiter::Parenthesis, a)]);
                t
            }
        };
        // if let Err(e) = <call> { break '__lw Err(e); }
        body.extend(ts("if let ::core::result::Result::Err(__e) ="));
        body.extend(call);
        body.extend([group(Delimiter::Brace, ts("break '__lw ::core::result::Result::Err(__e);"))]);
    }
    if next_pos != positional.len() {
        return compile_error("lite_write!: unused positional arguments");
    }
    body.extend(ts("::core::result::Result::Ok(())"));
    let mut out = ts("'__lw:");
    out.extend([group(Delimiter::Brace, body)]);
    // wrap in parentheses-free block expression
    [group(Delimiter::Brace, out)].into_iter().collect()
}

