//! E2 runtime (DESIGN.md 2.2).
//!
//! Trusted: that `LiteDisplay` / `LiteDecPad0` / `LiteUpperHex` produce exactly what `core::fmt`
//! produces for `{}`, `{:0N}`, `{:0NX}` on `str`, `char`, `bool` and the integer types --
//! validated natively by /verif/native/tests/litefmt.rs against `format!`.
//! Floats are *not* formatted here under Kani: `{}` of f32/f64 is the contract stub M4.
pub use litefmt_macros::{lite_write, lite_writeln};

use core::fmt::{Result, Write};

pub trait LiteDisplay {
    fn lite_fmt<W: Write + ?Sized>(&self, w: &mut W) -> Result;
}
pub trait LiteDecPad0 {
    /// `{:0N}`
    fn lite_dec_pad0<W: Write + ?Sized>(&self, width: usize, w: &mut W) -> Result;
    /// number of characters `{}` would write (sign included)
    fn lite_dec_len(&self) -> usize;
    /// `{:N}` / `{:>N}`: numbers are right-aligned, padded with spaces
    fn lite_dec_pad_space<W: Write + ?Sized>(&self, width: usize, w: &mut W) -> Result {
        let mut pad = width.saturating_sub(self.lite_dec_len());
        while pad > 0 {
            w.write_str(" ")?;
            pad -= 1;
        }
        self.lite_dec_pad0(0, w)
    }
    /// `{:<N}`
    fn lite_dec_pad_left_aligned<W: Write + ?Sized>(&self, width: usize, w: &mut W) -> Result {
        self.lite_dec_pad0(0, w)?;
        let mut pad = width.saturating_sub(self.lite_dec_len());
        while pad > 0 {
            w.write_str(" ")?;
            pad -= 1;
        }
        Ok(())
    }
}
pub trait LiteUpperHex {
    /// `{:0NX}` (and `{:X}` with width 0)
    fn lite_upper_hex_pad0<W: Write + ?Sized>(&self, width: usize, w: &mut W) -> Result;
    /// `{:0Nx}` (and `{:x}` with width 0)
    fn lite_lower_hex_pad0<W: Write + ?Sized>(&self, width: usize, w: &mut W) -> Result;
}

// ---- `{}` dispatch: LiteDisplay if implemented, else core::fmt::Display when the destination is a
// core::fmt::Formatter (autoref specialisation; used for `write!(f, "{date}")` inside Display impls
// of the re-rooted crate, whose types cannot implement LiteDisplay) ----
pub struct Wrap<'a, T: ?Sized>(pub &'a T);

pub trait ViaLite<W: ?Sized> {
    fn lite_go(&self, w: &mut W) -> Result;
}
impl<T: LiteDisplay + ?Sized, W: Write + ?Sized> ViaLite<W> for Wrap<'_, T> {
    #[inline]
    fn lite_go(&self, w: &mut W) -> Result {
        self.0.lite_fmt(w)
    }
}
pub trait ViaDisplay<W: ?Sized> {
    fn lite_go(&self, w: &mut W) -> Result;
}
impl<'f, T: core::fmt::Display + ?Sized> ViaDisplay<core::fmt::Formatter<'f>> for &Wrap<'_, T> {
    #[inline]
    fn lite_go(&self, f: &mut core::fmt::Formatter<'f>) -> Result {
        core::fmt::Display::fmt(self.0, f)
    }
}

impl<T: LiteDisplay + ?Sized> LiteDisplay for &T {
    fn lite_fmt<W: Write + ?Sized>(&self, w: &mut W) -> Result {
        (**self).lite_fmt(w)
    }
}
impl<T: LiteDecPad0 + ?Sized> LiteDecPad0 for &T {
    fn lite_dec_pad0<W: Write + ?Sized>(&self, width: usize, w: &mut W) -> Result {
        (**self).lite_dec_pad0(width, w)
    }
    fn lite_dec_len(&self) -> usize {
        (**self).lite_dec_len()
    }
}
impl<T: LiteUpperHex + ?Sized> LiteUpperHex for &T {
    fn lite_upper_hex_pad0<W: Write + ?Sized>(&self, width: usize, w: &mut W) -> Result {
        (**self).lite_upper_hex_pad0(width, w)
    }
    fn lite_lower_hex_pad0<W: Write + ?Sized>(&self, width: usize, w: &mut W) -> Result {
        (**self).lite_lower_hex_pad0(width, w)
    }
}

impl LiteDisplay for str {
    fn lite_fmt<W: Write + ?Sized>(&self, w: &mut W) -> Result {
        w.write_str(self)
    }
}
impl LiteDisplay for String {
    fn lite_fmt<W: Write + ?Sized>(&self, w: &mut W) -> Result {
        w.write_str(self)
    }
}
impl LiteDisplay for char {
    fn lite_fmt<W: Write + ?Sized>(&self, w: &mut W) -> Result {
        w.write_char(*self)
    }
}
impl LiteDisplay for bool {
    fn lite_fmt<W: Write + ?Sized>(&self, w: &mut W) -> Result {
        w.write_str(if *self { "true" } else { "false" })
    }
}

const DIGIT_STR: [&str; 16] = ["0", "1", "2", "3", "4", "5", "6", "7", "8", "9", "A", "B", "C", "D", "E", "F"];
const DIGIT_STR_LOWER: [&str; 16] = ["0", "1", "2", "3", "4", "5", "6", "7", "8", "9", "a", "b", "c", "d", "e", "f"];

fn dec_len_u128(mut v: u128, negative: bool) -> usize {
    let mut n = 1;
    while v >= 10 {
        v /= 10;
        n += 1;
    }
    n + if negative { 1 } else { 0 }
}

/// `{:0WX}` of a value that fits in 32 bits: nibble shifts, no division (8 iterations)
fn write_hex_u32<W: Write + ?Sized>(v: u32, width: usize, upper: bool, w: &mut W) -> Result {
    let mut extra = width.saturating_sub(8);
    while extra > 0 {
        w.write_str("0")?;
        extra -= 1;
    }
    let mut started = false;
    let mut i = 8;
    while i > 0 {
        i -= 1;
        let nib = ((v >> (4 * i)) & 0xF) as usize;
        if nib != 0 || started || i < width || i == 0 {
            started = true;
            w.write_str(if upper { DIGIT_STR[nib] } else { DIGIT_STR_LOWER[nib] })?;
        }
    }
    Ok(())
}

const POW10_U32: [u32; 10] = [1_000_000_000, 100_000_000, 10_000_000, 1_000_000, 100_000, 10_000, 1_000, 100, 10, 1];

/// `{:0W}` of a value that fits in 32 bits: division by constants only (10 iterations)
fn write_dec_u32<W: Write + ?Sized>(v: u32, negative: bool, width: usize, w: &mut W) -> Result {
    if negative {
        w.write_str("-")?;
    }
    // core::fmt counts the sign towards the width for `{:0N}`
    let width = if negative { width.saturating_sub(1) } else { width };
    let mut extra = width.saturating_sub(10);
    while extra > 0 {
        w.write_str("0")?;
        extra -= 1;
    }
    let mut rest = v;
    let mut started = false;
    let mut i = 0;
    while i < 10 {
        let d = rest / POW10_U32[i];
        rest %= POW10_U32[i];
        let pos_from_right = 9 - i;
        if d != 0 || started || pos_from_right < width || pos_from_right == 0 {
            started = true;
            w.write_str(DIGIT_STR[d as usize])?;
        }
        i += 1;
    }
    Ok(())
}

/// 64-bit integers: the 32-bit routine when the value fits, else 64-bit division by 10
fn write_dec_u64<W: Write + ?Sized>(v: u64, negative: bool, width: usize, w: &mut W) -> Result {
    if v <= u32::MAX as u64 {
        return write_dec_u32(v as u32, negative, width, w);
    }
    let mut v = v;
    let mut tmp = [0u8; 20];
    let mut n = 0;
    loop {
        tmp[n] = (v % 10) as u8;
        n += 1;
        v /= 10;
        if v == 0 {
            break;
        }
    }
    if negative {
        w.write_str("-")?;
    }
    let used = n + if negative { 1 } else { 0 };
    let mut pad = width.saturating_sub(used);
    while pad > 0 {
        w.write_str("0")?;
        pad -= 1;
    }
    while n > 0 {
        n -= 1;
        w.write_str(DIGIT_STR[tmp[n] as usize])?;
    }
    Ok(())
}

/// wide integers (not reached by the registered harnesses; kept for native completeness)
fn write_dec_u128<W: Write + ?Sized>(mut v: u128, negative: bool, width: usize, w: &mut W) -> Result {
    let mut tmp = [0u8; 40];
    let mut n = 0;
    loop {
        tmp[n] = (v % 10) as u8;
        n += 1;
        v /= 10;
        if v == 0 {
            break;
        }
    }
    if negative {
        w.write_str("-")?;
    }
    let used = n + if negative { 1 } else { 0 };
    let mut pad = width.saturating_sub(used);
    while pad > 0 {
        w.write_str("0")?;
        pad -= 1;
    }
    while n > 0 {
        n -= 1;
        w.write_str(DIGIT_STR[tmp[n] as usize])?;
    }
    Ok(())
}

macro_rules! small_unsigned {
    ($($t:ty)*) => {$(
        impl LiteDisplay for $t {
            fn lite_fmt<W: Write + ?Sized>(&self, w: &mut W) -> Result { write_dec_u32(*self as u32, false, 0, w) }
        }
        impl LiteDecPad0 for $t {
            fn lite_dec_pad0<W: Write + ?Sized>(&self, width: usize, w: &mut W) -> Result { write_dec_u32(*self as u32, false, width, w) }
            fn lite_dec_len(&self) -> usize { dec_len_u128(*self as u128, false) }
        }
        impl LiteUpperHex for $t {
            fn lite_upper_hex_pad0<W: Write + ?Sized>(&self, width: usize, w: &mut W) -> Result { write_hex_u32(*self as u32, width, true, w) }
            fn lite_lower_hex_pad0<W: Write + ?Sized>(&self, width: usize, w: &mut W) -> Result { write_hex_u32(*self as u32, width, false, w) }
        }
    )*};
}
macro_rules! small_signed {
    ($($t:ty)*) => {$(
        impl LiteDisplay for $t {
            fn lite_fmt<W: Write + ?Sized>(&self, w: &mut W) -> Result { write_dec_u32((*self as i64).unsigned_abs() as u32, *self < 0, 0, w) }
        }
        impl LiteDecPad0 for $t {
            fn lite_dec_pad0<W: Write + ?Sized>(&self, width: usize, w: &mut W) -> Result { write_dec_u32((*self as i64).unsigned_abs() as u32, *self < 0, width, w) }
            fn lite_dec_len(&self) -> usize { dec_len_u128((*self as i64).unsigned_abs() as u128, *self < 0) }
        }
    )*};
}
macro_rules! wide_unsigned {
    ($($t:ty)*) => {$(
        impl LiteDisplay for $t {
            fn lite_fmt<W: Write + ?Sized>(&self, w: &mut W) -> Result { write_dec_u128(*self as u128, false, 0, w) }
        }
        impl LiteDecPad0 for $t {
            fn lite_dec_pad0<W: Write + ?Sized>(&self, width: usize, w: &mut W) -> Result { write_dec_u128(*self as u128, false, width, w) }
            fn lite_dec_len(&self) -> usize { dec_len_u128(*self as u128, false) }
        }
    )*};
}
macro_rules! wide_signed {
    ($($t:ty)*) => {$(
        impl LiteDisplay for $t {
            fn lite_fmt<W: Write + ?Sized>(&self, w: &mut W) -> Result { write_dec_u128((*self as i128).unsigned_abs(), *self < 0, 0, w) }
        }
        impl LiteDecPad0 for $t {
            fn lite_dec_pad0<W: Write + ?Sized>(&self, width: usize, w: &mut W) -> Result { write_dec_u128((*self as i128).unsigned_abs(), *self < 0, width, w) }
            fn lite_dec_len(&self) -> usize { dec_len_u128((*self as i128).unsigned_abs(), *self < 0) }
        }
    )*};
}
macro_rules! mid_unsigned {
    ($($t:ty)*) => {$(
        impl LiteDisplay for $t {
            fn lite_fmt<W: Write + ?Sized>(&self, w: &mut W) -> Result { write_dec_u64(*self as u64, false, 0, w) }
        }
        impl LiteDecPad0 for $t {
            fn lite_dec_pad0<W: Write + ?Sized>(&self, width: usize, w: &mut W) -> Result { write_dec_u64(*self as u64, false, width, w) }
            fn lite_dec_len(&self) -> usize { dec_len_u128(*self as u128, false) }
        }
    )*};
}
macro_rules! mid_signed {
    ($($t:ty)*) => {$(
        impl LiteDisplay for $t {
            fn lite_fmt<W: Write + ?Sized>(&self, w: &mut W) -> Result { write_dec_u64((*self as i64).unsigned_abs(), *self < 0, 0, w) }
        }
        impl LiteDecPad0 for $t {
            fn lite_dec_pad0<W: Write + ?Sized>(&self, width: usize, w: &mut W) -> Result { write_dec_u64((*self as i64).unsigned_abs(), *self < 0, width, w) }
            fn lite_dec_len(&self) -> usize { dec_len_u128((*self as i64).unsigned_abs() as u128, *self < 0) }
        }
    )*};
}
small_unsigned!(u8 u16 u32);
small_signed!(i8 i16 i32);
mid_unsigned!(u64 usize);
mid_signed!(i64 isize);
wide_unsigned!(u128);
wide_signed!(i128);

// ---- ghost: the text the last float `{}` produced, so that a harness can require that the code
// under test wrote exactly those digits (and at most appended `.0`) ----
pub mod ghost {
    use super::FixedBuf;
    use core::cell::UnsafeCell;

    pub struct Cell(UnsafeCell<FixedBuf<512>>);
    // SAFETY: harnesses and replay tests are single-threaded
    unsafe impl Sync for Cell {}
    pub static LAST_FLOAT: Cell = Cell(UnsafeCell::new(FixedBuf::new()));

    pub fn reset() {
        // SAFETY: see above
        unsafe {
            let g = &mut *LAST_FLOAT.0.get();
            g.len = 0;
            g.overflow = false;
        }
    }
    pub fn push(s: &str) {
        use core::fmt::Write as _;
        // SAFETY: see above
        unsafe {
            let _ = (*LAST_FLOAT.0.get()).write_str(s);
        }
    }
    pub fn last_float() -> &'static [u8] {
        // SAFETY: see above
        unsafe { (*LAST_FLOAT.0.get()).as_slice() }
    }
}

/// writes to `w` and records in the ghost
struct Tee<'a, W: Write + ?Sized>(&'a mut W);
impl<W: Write + ?Sized> Write for Tee<'_, W> {
    fn write_str(&mut self, s: &str) -> Result {
        ghost::push(s);
        self.0.write_str(s)
    }
}

// ---- floats: real Display natively, contract stub M4 under Kani ---------------------------------

#[cfg(not(kani))]
macro_rules! float_native {
    ($($t:ty)*) => {$(
        impl LiteDisplay for $t {
            fn lite_fmt<W: Write + ?Sized>(&self, w: &mut W) -> Result {
                ghost::reset();
                let mut w = Tee(w);
                core::write!(w, "{}", self)
            }
        }
    )*};
}
#[cfg(not(kani))]
float_native!(f32 f64);

/// M4: what `impl Display for f32/f64` documents: `NaN`, `inf`, `-inf`, otherwise an optional
/// minus sign (also for -0.0), at least one digit, and a fractional part `.` 1*DIGIT exactly when
/// the value is not integral; never an exponent.  The digits themselves are arbitrary.
#[cfg(kani)]
macro_rules! float_contract {
    ($($t:ty)*) => {$(
        impl LiteDisplay for $t {
            fn lite_fmt<W: Write + ?Sized>(&self, w: &mut W) -> Result {
                ghost::reset();
                let w = &mut Tee(w);
                let x = *self;
                if x.is_nan() {
                    return w.write_str("NaN");
                }
                if x.is_infinite() {
                    return w.write_str(if x.is_sign_negative() { "-inf" } else { "inf" });
                }
                if x.is_sign_negative() {
                    w.write_str("-")?;
                }
                let mut digit = || -> &'static str {
                    let d: u8 = kani::any();
                    match d % 10 { 0 => "0", 1 => "1", 2 => "2", 3 => "3", 4 => "4", 5 => "5", 6 => "6", 7 => "7", 8 => "8", _ => "9" }
                };
                // integer part: no superfluous leading zero
                let first = digit();
                let two: bool = kani::any();
                kani::assume(!(two && first.as_bytes()[0] == b'0'));
                w.write_str(first)?;
                if two {
                    w.write_str(digit())?;
                }
                // integrality is judged with the exact IEEE operation `%` (fmod), like the code
                // under test does; CBMC's `trunc` and `%` disagree with each other on ordinary
                // values (probe: -1.9999999999999998), so mixing the two yields spurious witnesses
                let integral = x % 1.0 == 0.0;
                if !integral {
                    w.write_str(".")?;
                    w.write_str(digit())?;
                    if kani::any() {
                        w.write_str(digit())?;
                    }
                }
                Ok(())
            }
        }
    )*};
}
#[cfg(kani)]
float_contract!(f32 f64);

// ---- fixed-capacity writer ----------------------------------------------------------------------

/// `core::fmt::Write` into a fixed array (no allocation: `String` growth alone costs CBMC > 15 min)
pub struct FixedBuf<const N: usize> {
    pub b: [u8; N],
    pub len: usize,
    pub overflow: bool,
}

impl<const N: usize> FixedBuf<N> {
    pub const fn new() -> Self {
        Self { b: [0; N], len: 0, overflow: false }
    }
    pub fn as_slice(&self) -> &[u8] {
        &self.b[..self.len]
    }
}

impl<const N: usize> Default for FixedBuf<N> {
    fn default() -> Self {
        Self::new()
    }
}

impl<const N: usize> Write for FixedBuf<N> {
    fn write_str(&mut self, s: &str) -> Result {
        let bytes = s.as_bytes();
        let mut i = 0;
        while i < bytes.len() {
            if self.len >= N {
                self.overflow = true;
                return Err(core::fmt::Error);
            }
            self.b[self.len] = bytes[i];
            self.len += 1;
            i += 1;
        }
        Ok(())
    }
}

// ---- `format!` replacement: a stack string (no heap; `String` growth paths alone exhaust CBMC) ---

/// What the shadowed `format!` returns in the re-rooted crates: derefs to `str`, so
/// `format!(..).trim_end_matches('0')` and friends work unchanged.  Capacity 64 bytes; a longer
/// text is a formatting error (reported by the harness as a failed write).
pub struct StackString {
    b: [u8; 64],
    len: usize,
    pub overflow: bool,
}

impl StackString {
    pub const fn new() -> Self {
        Self { b: [0; 64], len: 0, overflow: false }
    }
}

impl Default for StackString {
    fn default() -> Self {
        Self::new()
    }
}

impl Write for StackString {
    fn write_str(&mut self, s: &str) -> Result {
        let bytes = s.as_bytes();
        let mut i = 0;
        while i < bytes.len() {
            if self.len >= 64 {
                self.overflow = true;
                return Err(core::fmt::Error);
            }
            self.b[self.len] = bytes[i];
            self.len += 1;
            i += 1;
        }
        Ok(())
    }
}

impl core::ops::Deref for StackString {
    type Target = str;
    fn deref(&self) -> &str {
        // SAFETY: only whole `&str`s are ever appended
        unsafe { core::str::from_utf8_unchecked(&self.b[..self.len]) }
    }
}

impl LiteDisplay for StackString {
    fn lite_fmt<W: Write + ?Sized>(&self, w: &mut W) -> Result {
        w.write_str(self)
    }
}

impl core::fmt::Display for StackString {
    fn fmt(&self, f: &mut core::fmt::Formatter<'_>) -> Result {
        f.write_str(self)
    }
}
