//! Shared helpers for harnesses
pub use toml_edit::verif_hooks as hooks;
pub use toml_edit::verif_hooks::Outcome;

/// M7 (DESIGN.md 2.3): `core::str::from_utf8` -> refmodel::models::from_utf8 (plain validating
/// loop; std's validator is trusted, its word-at-a-time fast path on symbolic slice bounds is what
/// CBMC cannot finish).  Applied to every harness that reaches `trivia::from_utf8_unchecked`
/// (whose debug branch is `from_utf8(bytes).expect(..)`), `try_map(from_utf8)` or
/// `error::translate_position`.
pub fn stub_from_utf8(v: &[u8]) -> Result<&str, std::str::Utf8Error> {
    refmodel::models::from_utf8(v)
}

/// M8 (DESIGN.md 10.3): the *message-building* half of a failed `str` slice
/// (`core::str::slice_error_fail_rt`: floor/ceil_char_boundary loops, re-slicing, formatting) is
/// replaced by a bare panic.  Whether a slice fails is still decided by the real `str` indexing
/// code; only the text of the panic message is not modelled.
pub fn stub_slice_error_fail_rt(_s: &str, _begin: usize, _end: usize) -> ! {
    panic!("str slice index out of range or not on a character boundary")
}

/// M10 (DESIGN.md 10.7): the two `&str`-pattern calls of `ml_literal_string`
pub fn stub_contains_crlf<P>(s: &str, _pat: P) -> bool {
    refmodel::models::contains_crlf(s)
}
pub fn stub_replace_crlf<P>(s: &str, _from: P, _to: &str) -> String {
    refmodel::models::replace_crlf_with_lf(s)
}

/// M9 (DESIGN.md 10.3): `core::str::count::count_chars` -> refmodel::models::count_chars
pub fn stub_count_chars(s: &str) -> usize {
    refmodel::models::count_chars(s)
}

/// `N` symbolic bytes, all ASCII, with a symbolic length `<= N`.
/// Returns the buffer and the length; the caller slices.
pub fn any_ascii<const N: usize>() -> ([u8; N], usize) {
    let buf: [u8; N] = kani::any();
    let len: usize = kani::any();
    kani::assume(len <= N);
    let mut i = 0;
    while i < N {
        kani::assume(buf[i] < 0x80);
        i += 1;
    }
    (buf, len)
}

/// `N` symbolic bytes with a symbolic length `<= N` such that `buf[..len]` is well-formed UTF-8
/// (the precondition of every `&str` entry point).
pub fn any_utf8<const N: usize>() -> ([u8; N], usize) {
    let buf: [u8; N] = kani::any();
    let len: usize = kani::any();
    kani::assume(len <= N);
    kani::assume(refmodel::utf8_valid(&buf[..len]));
    (buf, len)
}

/// View bytes as `&str` without running std's validator (callers constrain the bytes to
/// well-formed UTF-8 with `kani::assume`).
pub fn as_str(b: &[u8]) -> &str {
    // SAFETY: see above
    unsafe { std::str::from_utf8_unchecked(b) }
}

pub fn all_ascii(s: &[u8]) -> bool {
    let mut i = 0;
    while i < s.len() {
        if s[i] >= 0x80 {
            return false;
        }
        i += 1;
    }
    true
}

/// `out` is exactly the sub-slice `s[..n]` (same address, same length)
pub fn is_prefix_slice(out: &str, s: &[u8], n: usize) -> bool {
    out.len() == n && out.as_ptr() == s.as_ptr()
}

/// Language kernel returning `()` (or a value we do not compare): S1 + S2
#[macro_export]
macro_rules! lang_kernel {
    ($harness:ident, $gen:ident, $n:expr, $unwind:expr, $hook:ident, $r:path) => {
        #[kani::proof]
        #[kani::unwind($unwind)]
        #[kani::stub(core::str::from_utf8, stub_from_utf8)]
        pub fn $harness() {
            let (buf, len) = $gen::<$n>();
            let s = &buf[..len];
            match hooks::$hook(as_str(s)) {
                Outcome::Ok(_, n) => {
                    assert!(n <= len);
                    assert!($r(&s[..n]));
                    kani::cover!(n > 0, "accepts a non-empty token");
                }
                _ => {
                    assert!(!$r(s));
                    kani::cover!(len > 0, "rejects a non-empty input");
                }
            }
        }
    };
}

/// A symbolic ASCII digit
pub fn any_digit() -> u8 {
    let d: u8 = kani::any();
    kani::assume(d >= b'0' && d <= b'9');
    d
}

/// Language kernel that cannot fail (`*rule`): S1 + S2 without a rejecting witness
#[macro_export]
macro_rules! lang_kernel_total {
    ($harness:ident, $gen:ident, $n:expr, $unwind:expr, $hook:ident, $r:path) => {
        #[kani::proof]
        #[kani::unwind($unwind)]
        #[kani::stub(core::str::from_utf8, stub_from_utf8)]
        pub fn $harness() {
            let (buf, len) = $gen::<$n>();
            let s = &buf[..len];
            match hooks::$hook(as_str(s)) {
                Outcome::Ok(_, n) => {
                    assert!(n <= len);
                    assert!($r(&s[..n]));
                    kani::cover!(n > 0, "accepts a non-empty token");
                    kani::cover!(n < len, "stops before the end of the input");
                }
                _ => {
                    assert!(!$r(s));
                }
            }
        }
    };
}

/// Language kernel returning the matched text as `&str` through `from_utf8_unchecked`:
/// S1 + S2, the output is the consumed prefix, and it is pure ASCII (M6: the safety argument of
/// the `unsafe` block, asserted for every input)
#[macro_export]
macro_rules! lang_kernel_ascii_str {
    ($harness:ident, $gen:ident, $n:expr, $unwind:expr, $hook:ident, $r:path) => {
        lang_kernel_ascii_str!($harness, $gen, $n, $unwind, $hook, $r, 0);
    };
    // `$skip`: bytes of a fixed prefix (`0x`, ...) that the kernel consumes but does not return
    ($harness:ident, $gen:ident, $n:expr, $unwind:expr, $hook:ident, $r:path, $skip:expr) => {
        #[kani::proof]
        #[kani::unwind($unwind)]
        #[kani::stub(core::str::from_utf8, stub_from_utf8)]
        pub fn $harness() {
            let (buf, len) = $gen::<$n>();
            let s = &buf[..len];
            match hooks::$hook(as_str(s)) {
                Outcome::Ok(o, n) => {
                    assert!(n <= len);
                    assert!($skip == 0 || $skip <= n);
                    assert!(is_prefix_slice(o, &s[$skip..], n - $skip));
                    assert!(all_ascii(&s[..n]));
                    assert!($r(&s[..n]));
                    kani::cover!(n > 0, "accepts a non-empty token");
                }
                _ => {
                    assert!(!$r(s));
                    kani::cover!(len > 0, "rejects a non-empty input");
                }
            }
        }
    };
}
