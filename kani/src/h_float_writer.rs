//! C11 (writer side, engine E2): `impl WriteTomlValue for f64 / f32` of toml_write/src/value.rs,
//! compiled from the unmodified source in the re-rooted crate `tw`.  `{}` of a float is the
//! contract stub M4 (litefmt): `NaN` | `inf` | `-inf` | `-?` digits [`.` digits], fractional part
//! exactly when the value is not integral.  Claim: for every bit pattern the written text is a
//! literal of TOML type *float* with the right sign / class -- never an integer literal, never a
//! spelling the grammar rejects.
use crate::util::*;
use litefmt::FixedBuf;
use refmodel::numbers::*;
use tw::WriteTomlValue;

/// `out` is `digits` or `digits` + ".0" (the latter only when `digits` has no fractional part)
fn is_display_digits_plus_optional_point_zero(out: &[u8], digits: &[u8]) -> bool {
    if refmodel::bytes_eq(out, digits) {
        return true;
    }
    let mut has_point = false;
    let mut i = 0;
    while i < digits.len() {
        if digits[i] == b'.' {
            has_point = true;
        }
        i += 1;
    }
    !has_point
        && out.len() == digits.len() + 2
        && refmodel::bytes_eq(&out[..digits.len()], digits)
        && out[digits.len()] == b'.'
        && out[digits.len() + 1] == b'0'
}

fn check_float_text(out: &[u8], is_nan: bool, is_inf: bool, negative: bool, is_zero: bool) {
    kani::cover!(is_nan && negative, "-nan");
    kani::cover!(is_inf && !negative, "+inf");
    kani::cover!(is_zero && negative, "-0.0");
    kani::cover!(!is_nan && !is_inf && !is_zero, "finite non-zero");
    match v_special_float(out) {
        Some(Special::Nan { negative: n }) => assert!(is_nan && n == negative, "nan spelling for a non-nan / wrong sign"),
        Some(Special::Inf { negative: n }) => assert!(is_inf && n == negative, "inf spelling for a finite value / wrong sign"),
        None => {
            assert!(!is_nan && !is_inf, "nan / inf not written as a TOML special float");
            assert!(r_float_syntax(out), "finite float not written as a TOML float literal");
            assert!((out[0] == b'-') == negative, "sign lost");
            if !is_zero {
                // "prints as a literal ... that parses back to the identical value": the digits are
                // exactly those of std's shortest round-trip `Display` (M4 / ghost), at most
                // followed by `.0`; anything else (e.g. a non-zero value written as `0.0`) loses
                // the value
                assert!(
                    is_display_digits_plus_optional_point_zero(out, litefmt::ghost::last_float()),
                    "finite non-zero float not written with Display's digits"
                );
            }
        }
    }
}

#[kani::proof]
#[kani::unwind(12)]
pub fn c11_write_f64_all_bits() {
    let x: f64 = kani::any();
    let mut out = FixedBuf::<512>::new();
    let r = x.write_toml_value(&mut out);
    assert!(r.is_ok() && !out.overflow);
    check_float_text(out.as_slice(), x.is_nan(), x.is_infinite(), x.is_sign_negative(), x == 0.0);
}

#[kani::proof]
#[kani::unwind(12)]
pub fn c11_write_f32_all_bits() {
    let x: f32 = kani::any();
    let mut out = FixedBuf::<512>::new();
    let r = x.write_toml_value(&mut out);
    assert!(r.is_ok() && !out.overflow);
    check_float_text(out.as_slice(), x.is_nan(), x.is_infinite(), x.is_sign_negative(), x == 0.0);
}
