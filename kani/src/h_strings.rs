//! C01/C02/C04: string kernels (parser/strings.rs, parser/key.rs)
use crate::util::*;
use refmodel::strings::*;

lang_kernel_ascii_str!(c01_unquoted_key_u4, any_utf8, 4, 6, unquoted_key, r_unquoted_key);
lang_kernel_ascii_str!(c01_unquoted_key_u8, any_utf8, 8, 10, unquoted_key, r_unquoted_key);

/// escape-seq-char: all well-formed UTF-8 strings <= 5 bytes (covers every one-letter escape and \uXXXX)
#[kani::proof]
#[kani::unwind(7)]
#[kani::stub(core::str::from_utf8, stub_from_utf8)]
pub fn c02_escape_seq_char_u5() {
    let (buf, len) = any_utf8::<5>();
    let s = &buf[..len];
    match hooks::escape_seq_char(as_str(s)) {
        Outcome::Ok(c, n) => {
            assert!(n <= len);
            assert!(v_escape_seq_char(&s[..n]) == Some(c as u32));
            kani::cover!(n == 5, "accepts \\uXXXX");
            kani::cover!(n == 1, "accepts a one-letter escape");
        }
        _ => {
            assert!(v_escape_seq_char(s).is_none());
            kani::cover!(len == 5 && s[0] == b'u', "rejects a bad \\u escape");
        }
    }
}

/// hexescape::<4>: every 4-hex-digit code (surrogates rejected)
#[kani::proof]
#[kani::unwind(7)]
#[kani::stub(core::str::from_utf8, stub_from_utf8)]
pub fn c02_hexescape4_u5() {
    let (buf, len) = any_utf8::<5>();
    let s = &buf[..len];
    match hooks::hexescape4(as_str(s)) {
        Outcome::Ok(c, n) => {
            assert!(n == 4 && n <= len);
            assert!(v_hexescape(&s[..n], 4) == Some(c as u32));
            kani::cover!(c as u32 > 0xDFFF, "accepts above the surrogates");
        }
        _ => {
            assert!(v_hexescape(s, 4).is_none());
            kani::cover!(len == 4 && s[0] == b'd' && s[1] == b'8', "rejects a surrogate");
        }
    }
}

/// hexescape::<8>: shape = 8 bytes of the HEXDIG class (symbolic) + one free byte
#[kani::proof]
#[kani::unwind(11)]
#[kani::stub(core::str::from_utf8, stub_from_utf8)]
pub fn c02_hexescape8_shape9() {
    // 7 HEXDIG bytes, then two free bytes such that the whole is well-formed UTF-8: the last
    // window byte can be ASCII or the first byte of a 2-byte character that straddles the window
    let buf: [u8; 9] = kani::any();
    let len: usize = kani::any();
    kani::assume(len == 8 || len == 9);
    kani::assume(refmodel::utf8_valid(&buf[..len]));
    let s = &buf[..len];
    let mut i = 0;
    while i < 7 {
        kani::assume(refmodel::classes::r_hexdig(buf[i]));
        i += 1;
    }
    match hooks::hexescape8(as_str(s)) {
        Outcome::Ok(c, n) => {
            assert!(n == 8);
            assert!(v_hexescape(&s[..n], 8) == Some(c as u32));
            kani::cover!(c as u32 > 0xFFFF, "accepts a supplementary-plane scalar");
        }
        _ => {
            assert!(v_hexescape(&s[..8], 8).is_none());
            kani::cover!(s[0] == b'0' && s[1] == b'0' && s[2] == b'1' && s[3] == b'1', "rejects > 10FFFF");
        }
    }
}
