//! C15/C04: error.rs::translate_position against the character-counting reference
use crate::util::*;
use refmodel::linecol::{is_char_start, r_linecol};

fn position_differential<const N: usize>() {
    let (buf, len) = any_utf8::<N>();
    let s = &buf[..len];
    let index: usize = kani::any();
    kani::assume(index <= len);
    // spans start on character boundaries
    kani::assume(index == len || is_char_start(s[index]));
    let got = hooks::translate_position(s, index);
    let want = r_linecol(s, index);
    // reachability witnesses first: Kani assumes an assertion after checking it
    kani::cover!(want.0 == 1 && want.1 == 1, "second line, second column");
    kani::cover!(index == len && len > 0 && s[len - 1] == b'\n', "end of input after a newline");
    if N >= 4 {
        kani::cover!(index < len && s[index] >= 0x80 && index >= 1 && s[0] >= 0x80, "multi-byte char at index, multi-byte char before it");
    }
    assert!(got.0 == want.0, "line differs");
    assert!(got.1 == want.1, "column differs (characters, not bytes)");
    // `raw.split('\n').nth(line).expect("valid line number")` in Display cannot fail
    let mut newlines = 0;
    let mut i = 0;
    while i < len {
        if s[i] == b'\n' {
            newlines += 1;
        }
        i += 1;
    }
    assert!(got.0 <= newlines);
}

#[kani::proof]
#[kani::unwind(6)]
#[kani::stub(core::str::from_utf8, stub_from_utf8)]
#[kani::stub(core::str::count::count_chars, stub_count_chars)]
pub fn c15_translate_position_u4() {
    position_differential::<4>();
}

#[kani::proof]
#[kani::unwind(5)]
#[kani::stub(core::str::from_utf8, stub_from_utf8)]
#[kani::stub(core::str::count::count_chars, stub_count_chars)]
pub fn c15_translate_position_u3() {
    position_differential::<3>();
}

#[kani::proof]
#[kani::unwind(7)]
#[kani::stub(core::str::from_utf8, stub_from_utf8)]
#[kani::stub(core::str::count::count_chars, stub_count_chars)]
pub fn c15_translate_position_u5() {
    position_differential::<5>();
}

#[kani::proof]
#[kani::unwind(8)]
#[kani::stub(core::str::from_utf8, stub_from_utf8)]
#[kani::stub(core::str::count::count_chars, stub_count_chars)]
pub fn c15_translate_position_u6() {
    position_differential::<6>();
}

#[kani::proof]
#[kani::unwind(10)]
#[kani::stub(core::str::from_utf8, stub_from_utf8)]
#[kani::stub(core::str::count::count_chars, stub_count_chars)]
pub fn c15_translate_position_u8() {
    position_differential::<8>();
}

/// Layout harness: exactly two 2-byte characters (`[C2..DF][80..BF]` twice), every index on a
/// character boundary -- the smallest input on which byte- and character-counting can differ
#[kani::proof]
#[kani::unwind(6)]
#[kani::stub(core::str::from_utf8, stub_from_utf8)]
#[kani::stub(core::str::count::count_chars, stub_count_chars)]
pub fn c15_translate_position_two_wide() {
    let buf: [u8; 4] = kani::any();
    kani::assume(buf[0] >= 0xC2 && buf[0] <= 0xDF && buf[2] >= 0xC2 && buf[2] <= 0xDF);
    kani::assume(buf[1] & 0xC0 == 0x80 && buf[3] & 0xC0 == 0x80);
    let which: u8 = kani::any();
    kani::assume(which < 3);
    let index = (which as usize) * 2;
    let s = &buf[..];
    let got = hooks::translate_position(s, index);
    let want = r_linecol(s, index);
    kani::cover!(index == 2, "index at the second wide character");
    kani::cover!(index == 4, "end of input");
    assert!(got.0 == want.0, "line differs");
    assert!(got.1 == want.1, "column differs (characters, not bytes)");
}

/// Layout harness: three characters, each 1 or 2 bytes wide (symbolic widths, so 3..=6 bytes),
/// ASCII members free (so `\n` can be anywhere), every index on a character boundary
#[kani::proof]
#[kani::unwind(8)]
#[kani::stub(core::str::from_utf8, stub_from_utf8)]
#[kani::stub(core::str::count::count_chars, stub_count_chars)]
pub fn c15_translate_position_three_chars() {
    let mut buf = [0u8; 6];
    let mut starts = [0usize; 4];
    let mut len = 0;
    let mut c = 0;
    while c < 3 {
        starts[c] = len;
        let wide: bool = kani::any();
        if wide {
            let lead: u8 = kani::any();
            let cont: u8 = kani::any();
            kani::assume(lead >= 0xC2 && lead <= 0xDF && cont & 0xC0 == 0x80);
            buf[len] = lead;
            buf[len + 1] = cont;
            len += 2;
        } else {
            let a: u8 = kani::any();
            kani::assume(a < 0x80);
            buf[len] = a;
            len += 1;
        }
        c += 1;
    }
    starts[3] = len;
    let which: usize = kani::any();
    kani::assume(which < 4);
    let index = starts[which];
    let s = &buf[..len];
    let got = hooks::translate_position(s, index);
    let want = r_linecol(s, index);
    kani::cover!(len == 6 && which == 2, "three wide characters, index at the third");
    kani::cover!(want.0 == 1, "an index on the second line");
    assert!(got.0 == want.0, "line differs");
    assert!(got.1 == want.1, "column differs (characters, not bytes)");
}
