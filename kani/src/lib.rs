//! Kani proof harnesses (engine E1).  See /verif/DESIGN.md.
#![allow(dead_code)]

#[cfg(kani)]
mod modules;
#[cfg(kani)]
pub use modules::*;
