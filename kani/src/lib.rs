//! Kani proof harnesses (engine E1).  See /verif/DESIGN.md.
#![allow(dead_code)]
// `core::fmt::Formatter::new` (to drive `Display::fmt` of the re-rooted toml_datetime into a fixed
// buffer) is unstable; Kani's pinned toolchain is a nightly
#![cfg_attr(kani, feature(formatting_options))]

#[cfg(kani)]
mod modules;
#[cfg(kani)]
pub use modules::*;
