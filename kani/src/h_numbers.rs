//! C01/C02/C04/C11: number kernels (parser/numbers.rs)
use crate::util::*;
use refmodel::numbers::*;

lang_kernel_ascii_str!(c01_dec_int_u4, any_utf8, 4, 6, dec_int, r_dec_int);
lang_kernel_ascii_str!(c01_hex_int_u5, any_utf8, 5, 7, hex_int, r_hex_int, 2);
lang_kernel_ascii_str!(c01_oct_int_u5, any_utf8, 5, 7, oct_int, r_oct_int, 2);
lang_kernel_ascii_str!(c01_bin_int_u5, any_utf8, 5, 7, bin_int, r_bin_int, 2);
lang_kernel_ascii_str!(c01_zero_prefixable_int_u4, any_utf8, 4, 6, zero_prefixable_int, r_zero_prefixable_int);
lang_kernel_ascii_str!(c01_frac_u4, any_utf8, 4, 6, frac, r_frac);
lang_kernel_ascii_str!(c01_exp_u4, any_utf8, 4, 6, exp, r_exp);
lang_kernel_ascii_str!(c01_float_syntax_a4, any_ascii, 4, 6, float_, r_float_syntax);
lang_kernel!(c01_true_a5, any_ascii, 5, 7, true_, r_true);
lang_kernel!(c01_false_a6, any_ascii, 6, 8, false_, r_false);

// ---- deeper bounds (thorough tier) ----
lang_kernel_ascii_str!(c01_dec_int_u6, any_utf8, 6, 8, dec_int, r_dec_int);
lang_kernel_ascii_str!(c01_hex_int_u7, any_utf8, 7, 9, hex_int, r_hex_int, 2);
lang_kernel_ascii_str!(c01_oct_int_u7, any_utf8, 7, 9, oct_int, r_oct_int, 2);
lang_kernel_ascii_str!(c01_bin_int_u7, any_utf8, 7, 9, bin_int, r_bin_int, 2);
lang_kernel_ascii_str!(c01_zero_prefixable_int_u6, any_utf8, 6, 8, zero_prefixable_int, r_zero_prefixable_int);
lang_kernel_ascii_str!(c01_frac_u6, any_utf8, 6, 8, frac, r_frac);
lang_kernel_ascii_str!(c01_exp_u6, any_utf8, 6, 8, exp, r_exp);
lang_kernel_ascii_str!(c01_dec_int_u10, any_utf8, 10, 12, dec_int, r_dec_int);
lang_kernel_ascii_str!(c01_hex_int_u12, any_utf8, 12, 14, hex_int, r_hex_int, 2);
lang_kernel_ascii_str!(c01_float_syntax_a5, any_ascii, 5, 7, float_, r_float_syntax);

/// special-float: language and value (sign of inf, sign bit of nan)
#[kani::proof]
#[kani::unwind(7)]
#[kani::stub(core::str::from_utf8, stub_from_utf8)]
pub fn c02_special_float_a5() {
    let (buf, len) = any_ascii::<5>();
    let s = &buf[..len];
    match hooks::special_float(as_str(s)) {
        Outcome::Ok(v, n) => {
            assert!(n <= len);
            match v_special_float(&s[..n]) {
                Some(Special::Inf { negative }) => {
                    assert!(v.is_infinite() && v.is_sign_negative() == negative);
                }
                Some(Special::Nan { negative }) => {
                    assert!(v.is_nan() && v.is_sign_negative() == negative);
                }
                None => panic!("accepted a non-token"),
            }
            kani::cover!(v.is_nan() && v.is_sign_negative(), "-nan");
            kani::cover!(v.is_infinite() && !v.is_sign_negative(), "+inf");
        }
        _ => {
            assert!(!r_special_float(s));
            kani::cover!(len == 4, "rejects");
        }
    }
}

/// M2 (DESIGN.md 2.3): `str::replace('_', "")` -> refmodel::models::replace_underscore.
/// Both call sites in numbers.rs pass exactly this pattern and replacement.
pub fn stub_replace_underscore<P>(s: &str, _from: P, _to: &str) -> String {
    refmodel::models::replace_underscore(s)
}

fn integer_differential(s: &[u8]) -> bool {
    match hooks::integer(as_str(s)) {
        Outcome::Ok(v, n) => {
            assert!(n <= s.len());
            assert!(r_integer(&s[..n]));
            assert!(v_integer(&s[..n]) == v as i128);
            true
        }
        _ => {
            assert!(!(r_integer(s) && fits_i64(v_integer(s))));
            false
        }
    }
}

/// integer, one dispatch arm per harness: prefix `0x` / `0o` / `0b` concrete, then 3 free ASCII
/// bytes (symbolic length)
macro_rules! integer_prefixed {
    ($harness:ident, $p:expr) => {
        #[kani::proof]
        #[kani::unwind(6)]
        #[kani::stub(str::replace, stub_replace_underscore)]
        #[kani::stub(core::str::from_utf8, stub_from_utf8)]
        pub fn $harness() {
            let (tail, tlen) = any_ascii::<3>();
            let mut buf = [0u8; 5];
            buf[0] = b'0';
            buf[1] = $p;
            buf[2] = tail[0];
            buf[3] = tail[1];
            buf[4] = tail[2];
            let s = &buf[..2 + tlen];
            let ok = integer_differential(s);
            kani::cover!(ok && tlen == 3, "accepts 3 digits");
            kani::cover!(!ok && tlen == 3, "rejects");
        }
    };
}
integer_prefixed!(c02_integer_hex_a5, b'x');
integer_prefixed!(c02_integer_oct_a5, b'o');
integer_prefixed!(c02_integer_bin_a5, b'b');

/// integer, decimal arm: all ASCII strings <= 4 bytes that do not start with a base prefix
#[kani::proof]
#[kani::unwind(6)]
#[kani::stub(str::replace, stub_replace_underscore)]
#[kani::stub(core::str::from_utf8, stub_from_utf8)]
pub fn c02_integer_dec_a4() {
    let (buf, len) = any_ascii::<4>();
    kani::assume(!(len >= 2 && buf[0] == b'0' && (buf[1] == b'x' || buf[1] == b'o' || buf[1] == b'b')));
    let s = &buf[..len];
    let ok = integer_differential(s);
    kani::cover!(ok && len == 4 && s[0] == b'-', "accepts a negative number");
    kani::cover!(!ok && len == 3, "rejects");
}


// ---- i64 range edge, every base: prefix concrete, all digits symbolic -------------------------

fn any_in(lo: u8, hi: u8) -> u8 {
    let d: u8 = kani::any();
    kani::assume(d >= lo && d <= hi);
    d
}

fn any_hexdigit() -> u8 {
    let d: u8 = kani::any();
    kani::assume(refmodel::classes::r_hexdig(d));
    d
}

/// `0x` + 16 symbolic hex digits: every 64-bit pattern; accepted iff <= i64::MAX, value exact
#[kani::proof]
#[kani::unwind(20)]
#[kani::stub(str::replace, stub_replace_underscore)]
#[kani::stub(core::str::from_utf8, stub_from_utf8)]
pub fn c11_integer_hex_edge16() {
    let mut buf = [0u8; 18];
    buf[0] = b'0';
    buf[1] = b'x';
    let mut i = 0;
    while i < 16 {
        buf[2 + i] = any_hexdigit();
        i += 1;
    }
    let ok = integer_differential(&buf[..]);
    kani::cover!(ok && buf[2] == b'7', "accepts up to 0x7FFF...");
    kani::cover!(!ok && buf[2] == b'8', "rejects from 0x8000... upwards");
}

/// `0o` + 22 symbolic octal digits (66 bits)
#[kani::proof]
#[kani::unwind(26)]
#[kani::stub(str::replace, stub_replace_underscore)]
#[kani::stub(core::str::from_utf8, stub_from_utf8)]
pub fn c11_integer_oct_edge22() {
    let mut buf = [0u8; 24];
    buf[0] = b'0';
    buf[1] = b'o';
    let mut i = 0;
    while i < 22 {
        buf[2 + i] = any_in(b'0', b'7');
        i += 1;
    }
    let ok = integer_differential(&buf[..]);
    kani::cover!(ok && buf[2] == b'0' && buf[3] == b'7', "accepts 0o0777...");
    kani::cover!(!ok && buf[2] == b'1', "rejects 2^63 and above");
}

// Binary (64 digits, even with only 8 of them symbolic) and decimal (19 digits, even with only 4
// symbolic) edge shapes were measured too: neither finishes (binary > 1500 s; decimal aborts at
// ~975 s with > 24 GB).  The i64 edge is therefore decided for the hex and octal arms only.
