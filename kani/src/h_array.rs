//! C16 (Array only): toml_edit::Array behaves as a plain vector under push / insert / remove /
//! replace / clear, one operation from an arbitrary 3-element state with symbolic values and a
//! symbolic position.
use toml_edit::Array;

fn build3(a: i64, b: i64, c: i64) -> Array {
    let mut arr = Array::new();
    arr.push(a);
    arr.push(b);
    arr.push(c);
    arr
}

fn at(arr: &Array, i: usize) -> Option<i64> {
    arr.get(i).and_then(|v| v.as_integer())
}

#[kani::proof]
#[kani::unwind(6)]
pub fn c16_array_push_len_get() {
    let (a, b, c): (i64, i64, i64) = (kani::any(), kani::any(), kani::any());
    let arr = build3(a, b, c);
    assert!(arr.len() == 3 && !arr.is_empty());
    assert!(at(&arr, 0) == Some(a) && at(&arr, 1) == Some(b) && at(&arr, 2) == Some(c));
    assert!(arr.get(3).is_none());
    kani::cover!(a != b && b != c, "distinct values");
    std::mem::forget(arr);
}

// A symbolic position makes `Vec::<Item>::remove/insert` a memmove of a symbolic number of
// ~200-byte items, which does not finish (> 20 min); the position is concrete per harness instead,
// the values stay symbolic.

macro_rules! remove_at {
    ($harness:ident, $i:expr) => {
        #[kani::proof]
        #[kani::unwind(6)]
        pub fn $harness() {
            let vals: [i64; 3] = kani::any();
            let mut arr = build3(vals[0], vals[1], vals[2]);
            const I: usize = $i;
            let removed = arr.remove(I);
            assert!(removed.as_integer() == Some(vals[I]), "wrong element removed");
            assert!(arr.len() == 2);
            // the remaining entries keep their relative order
            let (x, y) = match I {
                0 => (vals[1], vals[2]),
                1 => (vals[0], vals[2]),
                _ => (vals[0], vals[1]),
            };
            assert!(at(&arr, 0) == Some(x) && at(&arr, 1) == Some(y), "order not preserved");
            kani::cover!(vals[0] != vals[1] && vals[1] != vals[2] && vals[0] != vals[2], "distinct values");
            std::mem::forget(removed);
            std::mem::forget(arr);
        }
    };
}
remove_at!(c16_array_remove_at_0, 0);
remove_at!(c16_array_remove_at_1, 1);
remove_at!(c16_array_remove_at_2, 2);

macro_rules! insert_at {
    ($harness:ident, $i:expr) => {
        #[kani::proof]
        #[kani::unwind(7)]
        pub fn $harness() {
            let vals: [i64; 3] = kani::any();
            let d: i64 = kani::any();
            let mut arr = build3(vals[0], vals[1], vals[2]);
            const I: usize = $i;
            arr.insert(I, d);
            assert!(arr.len() == 4);
            let mut k = 0;
            while k < 4 {
                let want = if k < I {
                    vals[k]
                } else if k == I {
                    d
                } else {
                    vals[k - 1]
                };
                assert!(at(&arr, k) == Some(want), "insert misplaced an element");
                k += 1;
            }
            kani::cover!(d != vals[0], "a new value");
            std::mem::forget(arr);
        }
    };
}
insert_at!(c16_array_insert_at_0, 0);
insert_at!(c16_array_insert_at_2, 2);
insert_at!(c16_array_insert_at_3, 3);

macro_rules! replace_at {
    ($harness:ident, $i:expr) => {
        #[kani::proof]
        #[kani::unwind(6)]
        pub fn $harness() {
            let vals: [i64; 3] = kani::any();
            let d: i64 = kani::any();
            let mut arr = build3(vals[0], vals[1], vals[2]);
            const I: usize = $i;
            let old = arr.replace(I, d);
            assert!(old.as_integer() == Some(vals[I]), "replace returned the wrong element");
            assert!(arr.len() == 3 && at(&arr, I) == Some(d));
            const J: usize = (I + 1) % 3;
            assert!(at(&arr, J) == Some(vals[J]), "replace touched a neighbour");
            kani::cover!(d != vals[I], "a new value");
            std::mem::forget(old);
            std::mem::forget(arr);
        }
    };
}
replace_at!(c16_array_replace_at_0, 0);
replace_at!(c16_array_replace_at_2, 2);

#[kani::proof]
#[kani::unwind(6)]
pub fn c16_array_clear() {
    let vals: [i64; 3] = kani::any();
    let mut arr = build3(vals[0], vals[1], vals[2]);
    arr.clear();
    assert!(arr.is_empty() && arr.len() == 0 && arr.get(0).is_none());
    kani::cover!(true, "reached");
    std::mem::forget(arr);
}
