//! C12 step 3 (engine E2): the *unmodified source* of toml_datetime's `Display` impls, compiled in
//! the re-rooted crate `td`, prints every in-range value into a fixed buffer; the reference
//! date-time grammar must read the text back to the same fields.  Since both real parsers equal
//! the reference on the same shapes (C12 steps 1 and 2), the printed text is accepted by both and
//! parses back to the identical value.
use crate::util::*;
use core::fmt::Display;
use litefmt::FixedBuf;
use refmodel::datetime::*;

fn print<T: Display>(v: &T) -> FixedBuf<40> {
    let mut out = FixedBuf::<40>::new();
    {
        let mut f = core::fmt::Formatter::new(&mut out, core::fmt::FormattingOptions::new());
        let r = Display::fmt(v, &mut f);
        assert!(r.is_ok(), "printer failed");
    }
    assert!(!out.overflow);
    out
}

fn any_date() -> td::Date {
    let year: u16 = kani::any();
    let month: u8 = kani::any();
    let day: u8 = kani::any();
    kani::assume(year <= 9999 && month >= 1 && month <= 12 && day >= 1 && day <= days_in_month(year, month));
    td::Date { year, month, day }
}

fn any_time_whole_seconds() -> td::Time {
    let hour: u8 = kani::any();
    let minute: u8 = kani::any();
    let second: u8 = kani::any();
    kani::assume(hour <= 23 && minute <= 59 && second <= 60);
    td::Time { hour, minute, second, nanosecond: 0 }
}

/// every valid date prints as `YYYY-MM-DD` that reads back to the same date
#[kani::proof]
#[kani::unwind(12)]
pub fn c12_print_date() {
    let d = any_date();
    let out = print(&d);
    let s = out.as_slice();
    kani::cover!(d.year < 10, "a year that needs zero padding");
    match v_full_date(s) {
        Some(r) => assert!(r.year == d.year && r.month == d.month && r.day == d.day, "date reads back differently"),
        None => panic!("printed date is not a full-date"),
    }
}

/// every valid time with whole seconds prints as `HH:MM:SS` that reads back to the same time
#[kani::proof]
#[kani::unwind(12)]
pub fn c12_print_time_whole_seconds() {
    let t = any_time_whole_seconds();
    let out = print(&t);
    let s = out.as_slice();
    kani::cover!(t.hour < 10 && t.second == 60, "zero padding and a leap second");
    match v_partial_time(s) {
        Some(r) => assert!(r.hour == t.hour && r.minute == t.minute && r.second == t.second && r.nanosecond == 0, "time reads back differently"),
        None => panic!("printed time is not a partial-time"),
    }
}

/// every offset in range prints as `Z` or `+HH:MM` / `-HH:MM` that reads back to the same offset
#[kani::proof]
#[kani::unwind(12)]
pub fn c12_print_offset() {
    let o = if kani::any() {
        td::Offset::Z
    } else {
        let minutes: i16 = kani::any();
        // what both parsers can produce: |offset| <= 23:59
        kani::assume(minutes >= -(23 * 60 + 59) && minutes <= 23 * 60 + 59);
        td::Offset::Custom { minutes }
    };
    let out = print(&o);
    let s = out.as_slice();
    let want = match o {
        td::Offset::Z => ROffset::Z,
        td::Offset::Custom { minutes } => ROffset::Custom(minutes),
    };
    kani::cover!(matches!(o, td::Offset::Custom { minutes } if minutes < 0 && minutes > -60), "between -00:59 and -00:01");
    match v_time_offset(s) {
        Some(r) => assert!(r == want, "offset reads back differently"),
        None => panic!("printed offset is not a time-offset"),
    }
}

fn same_datetime(dt: &td::Datetime, r: &RDatetime) -> bool {
    let date_ok = match (dt.date, r.date) {
        (None, None) => true,
        (Some(a), Some(b)) => a.year == b.year && a.month == b.month && a.day == b.day,
        _ => false,
    };
    let time_ok = match (dt.time, r.time) {
        (None, None) => true,
        (Some(a), Some(b)) => a.hour == b.hour && a.minute == b.minute && a.second == b.second && a.nanosecond == b.nanosecond,
        _ => false,
    };
    let off_ok = match (dt.offset, r.offset) {
        (None, None) => true,
        (Some(td::Offset::Z), Some(ROffset::Z)) => true,
        (Some(td::Offset::Custom { minutes }), Some(ROffset::Custom(m))) => minutes == m,
        _ => false,
    };
    date_ok && time_ok && off_ok
}

fn roundtrip(dt: &td::Datetime) -> usize {
    let out = print(dt);
    match v_date_time(out.as_slice()) {
        Some(r) => assert!(same_datetime(dt, &r), "date-time reads back differently"),
        None => panic!("printed date-time is not in the grammar"),
    }
    out.len
}

/// offset date-time (whole seconds), `Z` or numeric offset
#[kani::proof]
#[kani::unwind(27)]
pub fn c12_print_offset_datetime() {
    let minutes: i16 = kani::any();
    kani::assume(minutes >= -(23 * 60 + 59) && minutes <= 23 * 60 + 59);
    let offset = if kani::any() { td::Offset::Z } else { td::Offset::Custom { minutes } };
    let dt = td::Datetime { date: Some(any_date()), time: Some(any_time_whole_seconds()), offset: Some(offset) };
    let n = roundtrip(&dt);
    kani::cover!(n == 25, "a numeric offset");
    kani::cover!(n == 20, "Z");
}

/// local date-time (whole seconds)
#[kani::proof]
#[kani::unwind(21)]
pub fn c12_print_local_datetime() {
    let dt = td::Datetime { date: Some(any_date()), time: Some(any_time_whole_seconds()), offset: None };
    let n = roundtrip(&dt);
    kani::cover!(n == 19, "reached");
}

/// local date and local time as a Datetime
#[kani::proof]
#[kani::unwind(12)]
pub fn c12_print_local_date_and_time() {
    let d = td::Datetime { date: Some(any_date()), time: None, offset: None };
    let n = roundtrip(&d);
    let t = td::Datetime { date: None, time: Some(any_time_whole_seconds()), offset: None };
    let m = roundtrip(&t);
    kani::cover!(n == 10 && m == 8, "reached");
}

// (fractional seconds with a fully symbolic nanosecond count -- `format!("{:09}", ns)` then
// `trim_end_matches('0')` -- do not finish in 2400 s; two slices of the value space are decided)

fn time_fraction_roundtrip(ns: u32) {
    let mut t = any_time_whole_seconds();
    t.nanosecond = ns;
    let out = print(&t);
    match v_partial_time(out.as_slice()) {
        Some(r) => assert!(r.hour == t.hour && r.minute == t.minute && r.second == t.second && r.nanosecond == ns, "time reads back differently"),
        None => panic!("printed time is not a partial-time"),
    }
}

/// whole milliseconds: ns = m * 1_000_000, m in 1..=999
#[kani::proof]
#[kani::unwind(20)]
pub fn c12_print_time_millis() {
    let m: u32 = kani::any();
    kani::assume(m >= 1 && m <= 999);
    kani::cover!(m % 100 == 0, "two trailing zeros inside the milliseconds");
    time_fraction_roundtrip(m * 1_000_000);
}

/// the lowest three digits: ns in 1..=999 (nine fractional digits, no trimming unless zero-ended)
#[kani::proof]
#[kani::unwind(20)]
pub fn c12_print_time_nanos_low() {
    let n: u32 = kani::any();
    kani::assume(n >= 1 && n <= 999);
    kani::cover!(n % 10 == 0, "a trailing zero");
    time_fraction_roundtrip(n);
}
