//! C11 (serde leaves): conversions that cannot be exact fail with an error; the others keep the
//! value.  toml_edit::ser::ValueSerializer and toml::Value's serializer (public API only).
use serde::Serializer as _;

/// toml_edit: `serialize_u64(v)` is Ok exactly for v <= i64::MAX and keeps the value
#[kani::proof]
#[kani::unwind(2)]
pub fn c11_ser_u64_toml_edit() {
    let v: u64 = kani::any();
    let r = toml_edit::ser::ValueSerializer::new().serialize_u64(v);
    match &r {
        Ok(val) => {
            assert!(v <= i64::MAX as u64, "u64 beyond i64 accepted");
            assert!(val.as_integer() == Some(v as i64), "value altered");
            kani::cover!(v == i64::MAX as u64, "largest accepted");
        }
        Err(_) => {
            assert!(v > i64::MAX as u64, "representable u64 refused");
            kani::cover!(v == i64::MAX as u64 + 1, "smallest refused");
        }
    }
    std::mem::forget(r);
}

/// toml_edit: narrower integers and i64 are kept exactly
#[kani::proof]
#[kani::unwind(2)]
pub fn c11_ser_small_ints_toml_edit() {
    let a: i64 = kani::any();
    let r = toml_edit::ser::ValueSerializer::new().serialize_i64(a);
    assert!(matches!(&r, Ok(v) if v.as_integer() == Some(a)));
    std::mem::forget(r);
    let b: u32 = kani::any();
    let r = toml_edit::ser::ValueSerializer::new().serialize_u32(b);
    assert!(matches!(&r, Ok(v) if v.as_integer() == Some(b as i64)));
    std::mem::forget(r);
    let c: i8 = kani::any();
    let r = toml_edit::ser::ValueSerializer::new().serialize_i8(c);
    assert!(matches!(&r, Ok(v) if v.as_integer() == Some(c as i64)));
    std::mem::forget(r);
    kani::cover!(a == i64::MIN && c == i8::MIN, "minimal values");
}

/// toml_edit: `serialize_f64` keeps every bit pattern except that it clears the sign of NaN;
/// `serialize_f32` widens exactly
#[kani::proof]
#[kani::unwind(2)]
pub fn c11_ser_f64_toml_edit() {
    let x: f64 = kani::any();
    let r = toml_edit::ser::ValueSerializer::new().serialize_f64(x);
    match &r {
        Ok(val) => match val.as_float() {
            Some(y) => {
                if x.is_nan() {
                    assert!(y.is_nan() && y.is_sign_positive());
                } else {
                    assert!(y.to_bits() == x.to_bits(), "float altered");
                }
            }
            None => panic!("not a float"),
        },
        Err(_) => panic!("f64 refused"),
    }
    kani::cover!(x == 0.0 && x.is_sign_negative(), "negative zero");
    kani::cover!(x.is_nan() && x.is_sign_negative(), "negative NaN");
    std::mem::forget(r);
    let s: f32 = kani::any();
    let r = toml_edit::ser::ValueSerializer::new().serialize_f32(s);
    match &r {
        Ok(val) => match val.as_float() {
            Some(y) => {
                if s.is_nan() {
                    assert!(y.is_nan() && y.is_sign_positive());
                } else {
                    assert!(y == s as f64 && y.is_sign_negative() == s.is_sign_negative());
                }
            }
            None => panic!("not a float"),
        },
        Err(_) => panic!("f32 refused"),
    }
    std::mem::forget(r);
}

/// toml::Value::try_from(u64): Ok exactly for v <= i64::MAX
#[kani::proof]
#[kani::unwind(2)]
pub fn c11_ser_u64_toml_value() {
    let v: u64 = kani::any();
    let r = toml::Value::try_from(v);
    match &r {
        Ok(val) => {
            assert!(v <= i64::MAX as u64, "u64 beyond i64 accepted");
            assert!(val.as_integer() == Some(v as i64), "value altered");
            kani::cover!(v == i64::MAX as u64, "largest accepted");
        }
        Err(_) => {
            assert!(v > i64::MAX as u64, "representable u64 refused");
            kani::cover!(v == i64::MAX as u64 + 1, "smallest refused");
        }
    }
    std::mem::forget(r);
}
