//! C11/C01: the float overflow guard of parser/numbers.rs::float
//!
//! M3 (DESIGN.md 2.3/2.4): `<f64 as FromStr>::from_str` is a *contract stub*: dec2flt
//! (Eisel-Lemire with 128-bit tables) is out of bit-blasting reach.  The stub returns an arbitrary
//! double constrained by what std documents for a TOML float literal of the harness's shape:
//! never NaN; sign bit = leading '-'; infinite exactly when the decimal magnitude rounds above
//! f64::MAX; zero exactly when every mantissa digit is zero.  For the shape used here (at most two
//! mantissa digits d1[.d2], exponent of at most three digits) that is decidable exactly:
//! (refmodel::models::float_facts, validated natively against std over the whole shape).
//! Counterexamples are replayed natively against the real std function, without the stub.
use crate::h_numbers::stub_replace_underscore;
use crate::util::*;

pub fn stub_f64_from_str(s: &str) -> Result<f64, std::num::ParseFloatError> {
    let facts = match refmodel::models::float_facts(s.as_bytes()) {
        Some(f) => f,
        None => panic!("M3: literal outside the modelled shape"),
    };
    let v: f64 = kani::any();
    kani::assume(!v.is_nan());
    kani::assume(v.is_sign_negative() == facts.negative);
    kani::assume(v.is_infinite() == facts.infinite);
    kani::assume((v == 0.0) == facts.zero);
    Ok(v)
}

/// shape: [sign] d [ "." d ] "e" [sign] d d d   -- sign bytes free among {'+','-',absent}
#[kani::proof]
#[kani::unwind(12)]
#[kani::stub(str::replace, stub_replace_underscore)]
#[kani::stub(<f64 as core::str::FromStr>::from_str, stub_f64_from_str)]
#[kani::stub(core::str::from_utf8, stub_from_utf8)]
pub fn c11_float_overflow_guard() {
    let mut buf = [0u8; 10];
    let mut len = 0;
    let sign: u8 = kani::any();
    kani::assume(sign < 3);
    if sign == 1 {
        buf[len] = b'+';
        len += 1;
    } else if sign == 2 {
        buf[len] = b'-';
        len += 1;
    }
    buf[len] = any_digit();
    len += 1;
    if kani::any() {
        buf[len] = b'.';
        buf[len + 1] = any_digit();
        len += 2;
    }
    buf[len] = b'e';
    len += 1;
    let esign: u8 = kani::any();
    kani::assume(esign < 3);
    if esign == 1 {
        buf[len] = b'+';
        len += 1;
    } else if esign == 2 {
        buf[len] = b'-';
        len += 1;
    }
    let mut k = 0;
    while k < 3 {
        buf[len] = any_digit();
        len += 1;
        k += 1;
    }
    let s = &buf[..len];
    match hooks::float(as_str(s)) {
        Outcome::Ok(v, n) => {
            assert!(n == len);
            kani::cover!(v.is_sign_negative() && v != 0.0, "accepts a negative finite float");
            kani::cover!(v > 1.0e300, "accepts a large finite float");
            // "every decimal float literal whose magnitude is too large for a double - with
            // either sign - is rejected rather than ... turned into an infinity"
            assert!(v.is_finite(), "an overflowing float literal was accepted as an infinity");
        }
        _ => {
            kani::cover!(sign == 2, "rejects an overflowing negative literal");
            kani::cover!(sign != 2, "rejects an overflowing positive literal");
        }
    }
}

/// quick variant: shape  [-] d "e" d d d
#[kani::proof]
#[kani::unwind(8)]
#[kani::stub(str::replace, stub_replace_underscore)]
#[kani::stub(<f64 as core::str::FromStr>::from_str, stub_f64_from_str)]
#[kani::stub(core::str::from_utf8, stub_from_utf8)]
pub fn c11_float_overflow_guard_small() {
    let mut buf = [0u8; 6];
    let mut len = 0;
    if kani::any() {
        buf[len] = b'-';
        len += 1;
    }
    buf[len] = any_digit();
    buf[len + 1] = b'e';
    buf[len + 2] = any_digit();
    buf[len + 3] = any_digit();
    buf[len + 4] = any_digit();
    len += 5;
    let s = &buf[..len];
    match hooks::float(as_str(s)) {
        Outcome::Ok(v, n) => {
            assert!(n == len);
            kani::cover!(v.is_sign_negative() && v != 0.0, "accepts a negative finite float");
            assert!(v.is_finite(), "an overflowing float literal was accepted as an infinity");
        }
        _ => {
            kani::cover!(buf[0] == b'-', "rejects an overflowing negative literal");
            kani::cover!(buf[0] != b'-', "rejects an overflowing positive literal");
        }
    }
}
