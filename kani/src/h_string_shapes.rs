//! C02/C01: multi-line string tokens on *shapes*: delimiters and the first-newline variant are
//! concrete per harness, only the content byte(s) are symbolic.  (With 3 free body bytes the same
//! kernels do not finish; these shapes pin the first-newline / CRLF rules and the decoded value.)
use crate::util::*;
use refmodel::strings::*;
use refmodel::Buf;

fn ml_basic_ref(s: &[u8]) -> Option<Buf<16>> {
    decode_ml_basic(s, true)
}
fn ml_literal_ref(s: &[u8]) -> Option<Buf<16>> {
    decode_ml_literal(s, true)
}

macro_rules! ml_shape {
    ($harness:ident, $hook:ident, $reference:ident, $q:expr, $head:expr, $tail:expr) => {
        /// `qqq` + $head + one free ASCII byte + $tail + `qqq`
        #[kani::proof]
        #[kani::unwind(14)]
        #[kani::stub(core::str::from_utf8, stub_from_utf8)]
        pub fn $harness() {
            const HEAD: &[u8] = $head;
            const TAIL: &[u8] = $tail;
            const LEN: usize = 3 + HEAD.len() + 1 + TAIL.len() + 3;
            let mut buf = [$q; LEN];
            let mut i = 0;
            while i < HEAD.len() {
                buf[3 + i] = HEAD[i];
                i += 1;
            }
            let c: u8 = kani::any();
            kani::assume(c < 0x80);
            buf[3 + HEAD.len()] = c;
            let mut j = 0;
            while j < TAIL.len() {
                buf[3 + HEAD.len() + 1 + j] = TAIL[j];
                j += 1;
            }
            let s = &buf[..];
            match hooks::$hook(as_str(s)) {
                Outcome::Ok(v, n) => {
                    let r = $reference(&s[..n]);
                    match r {
                        Some(r) => assert!(r.eq_bytes(v.as_bytes()), "decoded value differs"),
                        None => panic!("accepted a non-token"),
                    }
                    kani::cover!(n == LEN, "accepts the whole token");
                    let _keep = std::mem::ManuallyDrop::new(v);
                }
                _ => {
                    assert!($reference(s).is_none(), "refused a valid token");
                    kani::cover!(true, "rejects");
                }
            }
        }
    };
}

// ml-literal: no first newline / LF / CRLF, and a newline *after* the content byte
ml_shape!(c02_ml_literal_shape_plain, ml_literal_string, ml_literal_ref, b'\'', b"", b"");
ml_shape!(c02_ml_literal_shape_lf, ml_literal_string, ml_literal_ref, b'\'', b"\n", b"");
ml_shape!(c02_ml_literal_shape_crlf, ml_literal_string, ml_literal_ref, b'\'', b"\r\n", b"");
ml_shape!(c02_ml_literal_shape_crlf_inner, ml_literal_string, ml_literal_ref, b'\'', b"a", b"\r\nb");
// ml-basic: the same four layouts
ml_shape!(c02_ml_basic_shape_plain, ml_basic_string, ml_basic_ref, b'"', b"", b"");
ml_shape!(c02_ml_basic_shape_lf, ml_basic_string, ml_basic_ref, b'"', b"\n", b"");
ml_shape!(c02_ml_basic_shape_crlf, ml_basic_string, ml_basic_ref, b'"', b"\r\n", b"");
ml_shape!(c02_ml_basic_shape_crlf_inner, ml_basic_string, ml_basic_ref, b'"', b"a", b"\r\nb");
