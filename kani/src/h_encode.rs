//! C10 (encode side, engine E2, per-loop unwinding bounds): the *unmodified source* of toml_write/src/string.rs, compiled in
//! the re-rooted crate `tw` (format strings expanded at compile time, DESIGN.md 2.2), writes a
//! token into a fixed buffer; the reference decoder of that string kind must give back the input.
use crate::util::*;
use litefmt::FixedBuf;
use refmodel::strings::*;
use refmodel::Buf;
use tw::{TomlKeyBuilder, TomlStringBuilder, WriteTomlKey, WriteTomlValue};

fn written_value(t: &tw::TomlString<'_>) -> FixedBuf<40> {
    let mut out = FixedBuf::<40>::new();
    let r = t.write_toml_value(&mut out);
    assert!(r.is_ok() && !out.overflow, "writer failed");
    out
}

fn written_key(t: &tw::TomlKey<'_>) -> FixedBuf<40> {
    let mut out = FixedBuf::<40>::new();
    let r = t.write_toml_key(&mut out);
    assert!(r.is_ok() && !out.overflow, "writer failed");
    out
}

fn same(r: Option<Buf<16>>, s: &[u8]) -> bool {
    match r {
        Some(b) => b.eq_bytes(s),
        None => false,
    }
}

/// the token is one of the four string kinds (told apart by its delimiter) and decodes to `s`
fn decodes_to(token: &[u8], s: &[u8]) -> bool {
    if token.len() >= 3 && token[0] == b'"' && token[1] == b'"' && token[2] == b'"' && token.len() >= 6 {
        same(decode_ml_basic(token, true), s)
    } else if token.len() >= 3 && token[0] == b'\'' && token[1] == b'\'' && token[2] == b'\'' && token.len() >= 6 {
        same(decode_ml_literal(token, true), s)
    } else if !token.is_empty() && token[0] == b'"' {
        same(decode_basic(token), s)
    } else if !token.is_empty() && token[0] == b'\'' {
        same(decode_literal(token), s)
    } else {
        false
    }
}

macro_rules! encode_value_harness {
    ($harness:ident, $n:expr, $unwind:expr, |$b:ident| $pick:expr, $decode:expr) => {
        #[kani::proof]
        #[kani::unwind($unwind)]
        #[kani::stub(core::str::slice_error_fail_rt, stub_slice_error_fail_rt)]
        pub fn $harness() {
            let (buf, len) = any_utf8::<$n>();
            let s = &buf[..len];
            let $b = TomlStringBuilder::new(as_str(s));
            let picked: Option<tw::TomlString<'_>> = $pick;
            if let Some(t) = picked {
                let out = written_value(&t);
                kani::cover!(out.len >= len + 2, "a token was written");
                let token = out.as_slice();
                assert!($decode(token, s), "written token does not decode to the original string");
            }
        }
    };
}

fn dec_basic(token: &[u8], s: &[u8]) -> bool {
    same(decode_basic(token), s)
}
fn dec_ml_basic(token: &[u8], s: &[u8]) -> bool {
    same(decode_ml_basic(token, true), s)
}
fn dec_literal(token: &[u8], s: &[u8]) -> bool {
    same(decode_literal(token), s)
}
fn dec_ml_literal(token: &[u8], s: &[u8]) -> bool {
    same(decode_ml_literal(token, true), s)
}

encode_value_harness!(c10_encode_basic_u3, 3, 22, |b| Some(b.as_basic()), dec_basic);
encode_value_harness!(c10_encode_ml_basic_u2, 2, 20, |b| Some(b.as_ml_basic()), dec_ml_basic);
encode_value_harness!(c10_encode_literal_u3, 3, 8, |b| b.as_literal(), dec_literal);
encode_value_harness!(c10_encode_ml_literal_u3, 3, 12, |b| b.as_ml_literal(), dec_ml_literal);
encode_value_harness!(c10_encode_default_u2, 2, 20, |b| Some(b.as_default()), decodes_to);

/// keys: bare / literal / basic / default
#[kani::proof]
#[kani::unwind(16)]
#[kani::stub(core::str::slice_error_fail_rt, stub_slice_error_fail_rt)]
pub fn c10_encode_key_u2() {
    let (buf, len) = any_utf8::<2>();
    let s = &buf[..len];
    let b = TomlKeyBuilder::new(as_str(s));
    if let Some(t) = b.as_unquoted() {
        let out = written_key(&t);
        assert!(r_unquoted_key(out.as_slice()) && refmodel::bytes_eq(out.as_slice(), s), "bare key");
    }
    if let Some(t) = b.as_literal() {
        let out = written_key(&t);
        assert!(dec_literal(out.as_slice(), s), "literal key");
    }
    let out = written_key(&b.as_basic());
    kani::cover!(out.len > len + 2, "an escape was written");
    assert!(dec_basic(out.as_slice(), s), "basic key");
    let out = written_key(&b.as_default());
    let t = out.as_slice();
    assert!((r_unquoted_key(t) && refmodel::bytes_eq(t, s)) || dec_basic(t, s) || dec_literal(t, s), "default key");
}
