//! C15/C04 (engine E2): `impl Display for TomlError` from the unmodified toml_edit/src/error.rs
//! (re-rooted crate `te`): rendering an error with any span inside a small document never panics
//! and its header reports line+1 / column+1 of the span start as the reference counts them.
use crate::util::*;
use core::fmt::Display;
use litefmt::FixedBuf;
use refmodel::linecol::{is_char_start, r_linecol};

/// parse "TOML parse error at line L, column C\n" -> (L, C)
fn header(out: &[u8]) -> Option<(usize, usize)> {
    const P: &[u8] = b"TOML parse error at line ";
    if out.len() < P.len() || !refmodel::bytes_eq(&out[..P.len()], P) {
        return None;
    }
    let mut i = P.len();
    let mut l = 0usize;
    let mut nd = 0;
    while i < out.len() && out[i].is_ascii_digit() {
        l = l * 10 + (out[i] - b'0') as usize;
        i += 1;
        nd += 1;
    }
    const Q: &[u8] = b", column ";
    if nd == 0 || i + Q.len() > out.len() || !refmodel::bytes_eq(&out[i..i + Q.len()], Q) {
        return None;
    }
    i += Q.len();
    let mut c = 0usize;
    nd = 0;
    while i < out.len() && out[i].is_ascii_digit() {
        c = c * 10 + (out[i] - b'0') as usize;
        i += 1;
        nd += 1;
    }
    if nd == 0 || i >= out.len() || out[i] != b'\n' {
        return None;
    }
    Some((l, c))
}

fn render<const N: usize>() {
    let (buf, len) = any_utf8::<N>();
    let s = &buf[..len];
    let start: usize = kani::any();
    let end: usize = kani::any();
    // what the parser hands over: start <= end <= len, both on character boundaries
    kani::assume(start <= end && end <= len);
    kani::assume(start == len || is_char_start(s[start]));
    kani::assume(end == len || is_char_start(s[end]));
    let raw = String::from(as_str(s));
    let err = te::verif_make(String::new(), Some(raw), Some(start..end));
    let mut out = FixedBuf::<160>::new();
    {
        let mut f = core::fmt::Formatter::new(&mut out, core::fmt::FormattingOptions::new());
        let r = Display::fmt(&err, &mut f);
        assert!(r.is_ok(), "rendering failed");
    }
    assert!(!out.overflow);
    let want = r_linecol(s, start);
    kani::cover!(want.0 == 1, "an error on the second line");
    kani::cover!(start == len && len > 0, "an error at end of input");
    match header(out.as_slice()) {
        Some((l, c)) => assert!(l == want.0 + 1 && c == want.1 + 1, "header reports a wrong line/column"),
        None => panic!("malformed header"),
    }
    std::mem::forget(err);
}

#[kani::proof]
#[kani::unwind(12)]
#[kani::stub(core::str::from_utf8, stub_from_utf8)]
#[kani::stub(core::str::count::count_chars, stub_count_chars)]
pub fn c15_render_u2() {
    render::<2>();
}

#[kani::proof]
#[kani::unwind(12)]
#[kani::stub(core::str::from_utf8, stub_from_utf8)]
#[kani::stub(core::str::count::count_chars, stub_count_chars)]
pub fn c15_render_u3() {
    render::<3>();
}
