//! C10 (offer side): toml_write's TomlStringBuilder / TomlKeyBuilder offer a "pretty" style only
//! for strings that the style can hold verbatim (string.rs: ValueMetrics/KeyMetrics::calculate,
//! as_literal, as_ml_literal, as_basic_pretty, as_ml_basic_pretty, as_unquoted)
use crate::util::*;
use refmodel::strings::{representable_verbatim, Style};
use toml_write::{TomlKeyBuilder, TomlStringBuilder};

fn value_offers(s: &[u8]) {
    let b = TomlStringBuilder::new(as_str(s));
    // "A style is refused (not offered) rather than emitted wrongly"
    if b.as_literal().is_some() {
        assert!(representable_verbatim(s, Style::Literal), "literal offered wrongly");
    }
    if b.as_ml_literal().is_some() {
        assert!(representable_verbatim(s, Style::MlLiteral), "ml-literal offered wrongly");
    }
    // The basic styles escape whatever needs escaping, so *offering* them is never wrong for the
    // property (only less pretty): whether "pretty" really means "no escape needed" is witnessed,
    // not asserted.
    kani::cover!(b.as_basic_pretty().is_some() && representable_verbatim(s, Style::Basic) && !s.is_empty(), "basic-pretty offered for a verbatim-representable string");
    kani::cover!(b.as_ml_basic_pretty().is_some() && representable_verbatim(s, Style::MlBasic) && !s.is_empty(), "ml-basic-pretty offered for a verbatim-representable string");
    // the documented intent of the "pretty" variants: offered whenever possible (a regression here
    // silently degrades every document the library writes, but is not a C10 violation: cover only)
    kani::cover!(b.as_literal().is_some() && !s.is_empty(), "literal offered");
    kani::cover!(b.as_literal().is_none(), "literal refused");
    kani::cover!(b.as_ml_literal().is_none(), "ml-literal refused");
    kani::cover!(b.as_basic_pretty().is_none(), "basic-pretty refused");
    kani::cover!(b.as_ml_basic_pretty().is_none(), "ml-basic-pretty refused");
}

fn key_offers(s: &[u8]) {
    let b = TomlKeyBuilder::new(as_str(s));
    if b.as_unquoted().is_some() {
        assert!(representable_verbatim(s, Style::Bare), "bare key offered wrongly");
    }
    if b.as_literal().is_some() {
        assert!(representable_verbatim(s, Style::Literal), "literal key offered wrongly");
    }
    kani::cover!(b.as_basic_pretty().is_some() && representable_verbatim(s, Style::Basic), "basic-pretty key offered for a verbatim-representable string");
    kani::cover!(b.as_unquoted().is_some(), "bare offered");
    kani::cover!(b.as_unquoted().is_none() && !s.is_empty(), "bare refused");
    kani::cover!(b.as_literal().is_none(), "literal refused");
    kani::cover!(b.as_basic_pretty().is_none(), "basic-pretty refused");
}

#[kani::proof]
#[kani::unwind(8)]
pub fn c10_value_offers_u6() {
    let (buf, len) = any_utf8::<6>();
    value_offers(&buf[..len]);
}

#[kani::proof]
#[kani::unwind(8)]
pub fn c10_key_offers_u6() {
    let (buf, len) = any_utf8::<6>();
    key_offers(&buf[..len]);
}
