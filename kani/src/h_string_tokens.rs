//! C01/C02/C04/C10: whole string tokens (parser/strings.rs: basic_string, literal_string,
//! ml_basic_string, ml_literal_string) against the reference decoders, delimiters concrete and
//! the body symbolic
use crate::util::*;
use refmodel::strings::*;
use refmodel::Buf;

/// Compare a kernel outcome on the whole token `s` with the reference decoder:
/// S1 (what is accepted decodes to the same bytes) and S2 (a valid token is accepted in full)
macro_rules! token_differential {
    ($s:expr, $hook:ident, $decode:expr) => {{
        let s: &[u8] = $s;
        match hooks::$hook(as_str(s)) {
            Outcome::Ok(v, n) => {
                assert!(n <= s.len());
                let r: Option<Buf<16>> = $decode(&s[..n]);
                match r {
                    Some(r) => assert!(r.eq_bytes(v.as_bytes()), "decoded value differs"),
                    None => panic!("accepted a non-token"),
                }
                let _keep = std::mem::ManuallyDrop::new(v);
                Some(n)
            }
            _ => {
                let r: Option<Buf<16>> = $decode(s);
                assert!(r.is_none(), "refused a valid token");
                None
            }
        }
    }};
}

/// literal-string: `'` + <= 3 free bytes (well-formed UTF-8 overall) + free ASCII byte
#[kani::proof]
#[kani::unwind(8)]
#[kani::stub(core::str::from_utf8, stub_from_utf8)]
pub fn c02_literal_string_u5() {
    let (body, blen) = any_utf8::<4>();
    let mut buf = [0u8; 5];
    buf[0] = b'\'';
    let mut i = 0;
    while i < 4 {
        buf[1 + i] = body[i];
        i += 1;
    }
    let s = &buf[..1 + blen];
    let n = token_differential!(s, literal_string, decode_literal);
    kani::cover!(n == Some(5), "accepts a 3-byte body");
    kani::cover!(n.is_none() && blen == 4, "rejects");
}

/// basic-string: `"` + <= 4 free bytes (well-formed UTF-8 overall)
#[kani::proof]
#[kani::unwind(8)]
#[kani::stub(core::str::from_utf8, stub_from_utf8)]
pub fn c02_basic_string_u5() {
    let (body, blen) = any_utf8::<4>();
    let mut buf = [0u8; 5];
    buf[0] = b'"';
    let mut i = 0;
    while i < 4 {
        buf[1 + i] = body[i];
        i += 1;
    }
    let s = &buf[..1 + blen];
    let n = token_differential!(s, basic_string, decode_basic);
    kani::cover!(n == Some(5), "accepts a 3-byte body");
    kani::cover!(n == Some(4) && buf[1] == b'\\', "accepts an escape");
    kani::cover!(n.is_none() && blen == 4, "rejects");
}

fn ml_basic_ref(s: &[u8]) -> Option<Buf<16>> {
    decode_ml_basic(s, true)
}
fn ml_literal_ref(s: &[u8]) -> Option<Buf<16>> {
    decode_ml_literal(s, true)
}

/// ml-basic-string: `"""` + 3 free ASCII bytes + `"""`  (quote runs next to the closing
/// delimiter, escapes, line-ending backslash, first-newline trimming, CRLF)
#[kani::proof]
#[kani::unwind(11)]
#[kani::stub(core::str::from_utf8, stub_from_utf8)]
pub fn c02_ml_basic_string_body3() {
    let (body, blen) = any_ascii::<3>();
    let mut buf = [b'"'; 9];
    let mut i = 0;
    while i < blen {
        buf[3 + i] = body[i];
        i += 1;
    }
    let s = &buf[..6 + blen];
    let n = token_differential!(s, ml_basic_string, ml_basic_ref);
    kani::cover!(n == Some(9) && body[2] == b'"', "accepts a quote adjacent to the closing delimiter");
    kani::cover!(n == Some(9) && body[0] == b'\\' && body[1] == b'\n', "accepts a line-ending backslash");
    kani::cover!(n.is_none() && blen == 3, "rejects");
}

/// ml-literal-string: `'''` + 3 free ASCII bytes + `'''`
#[kani::proof]
#[kani::unwind(11)]
#[kani::stub(core::str::from_utf8, stub_from_utf8)]
#[kani::stub(str::contains, stub_contains_crlf)]
#[kani::stub(str::replace, stub_replace_crlf)]
pub fn c02_ml_literal_string_body3() {
    let (body, blen) = any_ascii::<3>();
    let mut buf = [b'\''; 9];
    let mut i = 0;
    while i < blen {
        buf[3 + i] = body[i];
        i += 1;
    }
    let s = &buf[..6 + blen];
    let n = token_differential!(s, ml_literal_string, ml_literal_ref);
    kani::cover!(n == Some(9) && body[2] == b'\'', "accepts an apostrophe adjacent to the closing delimiter");
    kani::cover!(n == Some(9) && body[0] == b'\r', "accepts a leading CRLF");
    kani::cover!(n.is_none() && blen == 3, "rejects");
}
