//! C12/C04: toml_datetime::Datetime::from_str (the standalone parser, public API) against the
//! RFC 3339 reference
use crate::util::*;
use refmodel::datetime::*;
use std::str::FromStr;
use toml_datetime::{Datetime, Offset};

pub fn eq_datetime(a: &Datetime, r: &RDatetime) -> bool {
    let date_ok = match (a.date, r.date) {
        (None, None) => true,
        (Some(d), Some(rd)) => d.year == rd.year && d.month == rd.month && d.day == rd.day,
        _ => false,
    };
    let time_ok = match (a.time, r.time) {
        (None, None) => true,
        (Some(t), Some(rt)) => {
            t.hour == rt.hour
                && t.minute == rt.minute
                && t.second == rt.second
                && t.nanosecond == rt.nanosecond
        }
        _ => false,
    };
    let offset_ok = match (a.offset, r.offset) {
        (None, None) => true,
        (Some(Offset::Z), Some(ROffset::Z)) => true,
        (Some(Offset::Custom { minutes }), Some(ROffset::Custom(m))) => minutes == m,
        _ => false,
    };
    date_ok && time_ok && offset_ok
}

/// one call of the real parser, compared with the reference; returns the verdict
fn differential(s: &[u8]) -> bool {
    let real = Datetime::from_str(as_str(s));
    let reference = v_date_time(s);
    match (&real, &reference) {
        (Ok(d), Some(r)) => {
            assert!(eq_datetime(d, r), "fields differ");
            true
        }
        (Err(_), None) => false,
        (Ok(_), None) => panic!("standalone parser accepts what the grammar rejects"),
        (Err(_), Some(_)) => panic!("standalone parser rejects what the grammar accepts"),
    }
}

/// all ASCII strings <= 8 bytes (every local time without fraction, every truncated date)
#[kani::proof]
#[kani::stub(core::str::slice_error_fail_rt, stub_slice_error_fail_rt)]
#[kani::unwind(10)]
pub fn c12_fromstr_a8() {
    let (buf, len) = any_ascii::<8>();
    let s = &buf[..len];
    let ok = differential(s);
    kani::cover!(ok, "accepts a local time");
}

/// all well-formed UTF-8 strings <= 5 bytes (multi-byte characters at every position)
#[kani::proof]
#[kani::stub(core::str::slice_error_fail_rt, stub_slice_error_fail_rt)]
#[kani::unwind(7)]
pub fn c12_fromstr_u5() {
    let (buf, len) = any_utf8::<5>();
    let s = &buf[..len];
    let ok = differential(s);
    kani::cover!(len == 5 && buf[2] >= 0x80, "non-ASCII at byte 2");
}

// ---- shapes: punctuation concrete (or one free byte), every digit symbolic ----------------------

fn put_digits(buf: &mut [u8], at: usize, n: usize) {
    let mut i = 0;
    while i < n {
        buf[at + i] = any_digit();
        i += 1;
    }
}

fn any_ascii_byte() -> u8 {
    let b: u8 = kani::any();
    kani::assume(b < 0x80);
    b
}

/// local date `dddd-dd-dd` (+ optional free ASCII byte): every year/month/day incl. leap years
#[kani::proof]
#[kani::stub(core::str::slice_error_fail_rt, stub_slice_error_fail_rt)]
#[kani::unwind(13)]
pub fn c12_fromstr_shape_date() {
    let mut buf = [0u8; 11];
    put_digits(&mut buf, 0, 4);
    buf[4] = b'-';
    put_digits(&mut buf, 5, 2);
    buf[7] = b'-';
    put_digits(&mut buf, 8, 2);
    buf[10] = any_ascii_byte();
    let len: usize = if kani::any() { 10 } else { 11 };
    let s = &buf[..len];
    let ok = differential(s);
    kani::cover!(len == 10 && ok && buf[5] == b'0' && buf[6] == b'2' && buf[8] == b'2' && buf[9] == b'9', "accepts a 29 February");
    kani::cover!(len == 10 && !ok, "rejects an impossible date");
}

// (a single harness with a symbolic number k <= 10 of fractional digits does not finish in 1500 s;
// see the fixed-k harnesses `c12_fromstr_time_frac*` below)

/// offset date-time `dddd-dd-dd D dd:dd:dd` followed by nothing, one free byte, or
/// `F dd G dd` (F, G free ASCII bytes): delimiter, `Z`/`z`, sign, offset ranges
#[kani::proof]
#[kani::stub(core::str::slice_error_fail_rt, stub_slice_error_fail_rt)]
#[kani::unwind(27)]
pub fn c12_fromstr_shape_datetime_offset() {
    let mut buf = [0u8; 25];
    put_digits(&mut buf, 0, 4);
    buf[4] = b'-';
    put_digits(&mut buf, 5, 2);
    buf[7] = b'-';
    put_digits(&mut buf, 8, 2);
    buf[10] = any_ascii_byte();
    put_digits(&mut buf, 11, 2);
    buf[13] = b':';
    put_digits(&mut buf, 14, 2);
    buf[16] = b':';
    put_digits(&mut buf, 17, 2);
    buf[19] = any_ascii_byte();
    put_digits(&mut buf, 20, 2);
    buf[22] = any_ascii_byte();
    put_digits(&mut buf, 23, 2);
    let sel: u8 = kani::any();
    let len = match sel {
        0 => 19,
        1 => 20,
        _ => 25,
    };
    let s = &buf[..len];
    let ok = differential(s);
    kani::cover!(ok && len == 25 && buf[19] == b'-', "accepts a negative numeric offset");
    kani::cover!(ok && len == 20 && buf[10] == b' ', "accepts a space delimiter and Z");
    kani::cover!(!ok && len == 25 && buf[19] == b'+' && buf[22] == b':', "rejects an out-of-range offset or field");
}

/// full form `dddd-dd-ddTdd:dd:dd.ddd+dd:dd` with exactly one punctuation position replaced by a
/// free ASCII byte (symbolic choice of the position)
#[kani::proof]
#[kani::stub(core::str::slice_error_fail_rt, stub_slice_error_fail_rt)]
#[kani::unwind(31)]
pub fn c12_fromstr_shape_full_one_free() {
    let mut buf = [0u8; 29];
    put_digits(&mut buf, 0, 4);
    buf[4] = b'-';
    put_digits(&mut buf, 5, 2);
    buf[7] = b'-';
    put_digits(&mut buf, 8, 2);
    buf[10] = b'T';
    put_digits(&mut buf, 11, 2);
    buf[13] = b':';
    put_digits(&mut buf, 14, 2);
    buf[16] = b':';
    put_digits(&mut buf, 17, 2);
    buf[19] = b'.';
    put_digits(&mut buf, 20, 3);
    buf[23] = b'+';
    put_digits(&mut buf, 24, 2);
    buf[26] = b':';
    put_digits(&mut buf, 27, 2);
    const PUNCT: [usize; 8] = [4, 7, 10, 13, 16, 19, 23, 26];
    let which: usize = kani::any();
    kani::assume(which < 8);
    buf[PUNCT[which]] = any_ascii_byte();
    let s = &buf[..];
    let ok = differential(s);
    kani::cover!(ok, "accepts");
    kani::cover!(!ok && which == 5, "rejects with the fraction point replaced");
}

/// February of every year: `dddd-02-dd` (the leap-year rule, all 10^4 years x all 100 day texts)
#[kani::proof]
#[kani::stub(core::str::slice_error_fail_rt, stub_slice_error_fail_rt)]
#[kani::unwind(12)]
pub fn c12_fromstr_shape_feb() {
    let mut buf = [0u8; 10];
    put_digits(&mut buf, 0, 4);
    buf[4] = b'-';
    buf[5] = b'0';
    buf[6] = b'2';
    buf[7] = b'-';
    put_digits(&mut buf, 8, 2);
    let s = &buf[..];
    let ok = differential(s);
    kani::cover!(ok && buf[8] == b'2' && buf[9] == b'9', "accepts a 29 February");
    kani::cover!(!ok && buf[8] == b'2' && buf[9] == b'9', "rejects a 29 February");
}

macro_rules! time_frac_fixed {
    ($harness:ident, $k:expr) => {
        /// local time `dd:dd:dd.` + exactly $k symbolic digits (concrete length)
        #[kani::proof]
        #[kani::stub(core::str::slice_error_fail_rt, stub_slice_error_fail_rt)]
        #[kani::unwind(22)]
        pub fn $harness() {
            let mut buf = [0u8; 9 + $k];
            put_digits(&mut buf, 0, 2);
            buf[2] = b':';
            put_digits(&mut buf, 3, 2);
            buf[5] = b':';
            put_digits(&mut buf, 6, 2);
            buf[8] = b'.';
            put_digits(&mut buf, 9, $k);
            let ok = differential(&buf[..]);
            kani::cover!(ok, "accepts");
            kani::cover!(!ok, "rejects an out-of-range field");
        }
    };
}
time_frac_fixed!(c12_fromstr_time_frac1, 1);
time_frac_fixed!(c12_fromstr_time_frac4, 4);
time_frac_fixed!(c12_fromstr_time_frac9, 9);
time_frac_fixed!(c12_fromstr_time_frac10, 10);

/// all ASCII strings <= 10 bytes (every local date and every local time without fraction)
#[kani::proof]
#[kani::stub(core::str::slice_error_fail_rt, stub_slice_error_fail_rt)]
#[kani::unwind(12)]
pub fn c12_fromstr_a10() {
    let (buf, len) = any_ascii::<10>();
    let s = &buf[..len];
    let ok = differential(s);
    kani::cover!(ok && len == 10, "accepts a local date");
    kani::cover!(ok && len == 8, "accepts a local time");
}

/// all well-formed UTF-8 strings <= 7 bytes
#[kani::proof]
#[kani::stub(core::str::slice_error_fail_rt, stub_slice_error_fail_rt)]
#[kani::unwind(9)]
pub fn c12_fromstr_u7() {
    let (buf, len) = any_utf8::<7>();
    let s = &buf[..len];
    let _ok = differential(s);
    kani::cover!(len == 7 && buf[2] >= 0x80, "non-ASCII at byte 2");
}

macro_rules! fromstr_ascii {
    ($harness:ident, $n:expr, $unwind:expr) => {
        /// all ASCII strings <= $n bytes
        #[kani::proof]
        #[kani::stub(core::str::slice_error_fail_rt, stub_slice_error_fail_rt)]
        #[kani::unwind($unwind)]
        pub fn $harness() {
            let (buf, len) = any_ascii::<$n>();
            let s = &buf[..len];
            let ok = differential(s);
            kani::cover!(ok && len == $n, "accepts a string of maximal length");
            kani::cover!(!ok && len == $n, "rejects a string of maximal length");
        }
    };
}
fromstr_ascii!(c12_fromstr_a14, 14, 16);
fromstr_ascii!(c12_fromstr_a19, 19, 21);
fromstr_ascii!(c12_fromstr_a25, 25, 27);
