//! C05: the nesting counter (parser/mod.rs: RecursionCheck, check_recursion) and its placement in
//! `value` (parser/value.rs), one inductive step from an arbitrary state
use crate::util::*;
use hooks::recursion;

/// enter/exit: from every state the parser can be in (`current < LIMIT`), `enter` succeeds iff
/// the new depth is still below LIMIT, counts exactly one level, and `exit` undoes it
#[kani::proof]
#[kani::unwind(2)]
pub fn c05_enter_exit_step() {
    let limit = recursion::limit();
    let cur: usize = kani::any();
    kani::assume(cur < limit);
    let (ok, after) = recursion::enter(cur);
    assert!(after == cur + 1);
    assert!(ok == (cur + 1 < limit));
    if ok {
        assert!(recursion::exit(after) == cur);
    }
    kani::cover!(ok, "enter succeeds below the limit");
    kani::cover!(!ok, "enter fails at the limit");
}

/// check_depth(n) is an error exactly from LIMIT upwards, for every usize
#[kani::proof]
#[kani::unwind(2)]
pub fn c05_check_depth_all() {
    let limit = recursion::limit();
    let n: usize = kani::any();
    assert!(recursion::check_depth(n) == (n < limit));
    kani::cover!(n == limit - 1 && recursion::check_depth(n), "largest accepted key length");
    kani::cover!(n == limit && !recursion::check_depth(n), "smallest rejected key length");
}

/// check_recursion(p): whatever the wrapped parser returns (Ok / Backtrack / Cut) the counter is
/// restored; the wrapped parser sees depth+1; at the limit it is not run and the error is a Cut
#[kani::proof]
#[kani::unwind(2)]
pub fn c05_check_recursion_balanced() {
    let limit = recursion::limit();
    let cur: usize = kani::any();
    kani::assume(cur < limit);
    let which: u8 = kani::any();
    kani::assume(which < 3);
    let stub = match which {
        0 => recursion::Stub::Ok,
        1 => recursion::Stub::Backtrack,
        _ => recursion::Stub::Cut,
    };
    let (tag, seen, after) = recursion::guarded(cur, stub);
    if cur + 1 < limit {
        assert!(seen == Some(cur + 1));
        assert!(after == cur);
        assert!(tag == which);
    } else {
        assert!(seen.is_none());
        assert!(tag == 2);
    }
    kani::cover!(cur + 1 < limit && which == 1, "balanced after a backtrack");
    kani::cover!(cur + 1 >= limit, "refused at the limit");
}
