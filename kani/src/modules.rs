//! Module list shared by the Kani crate (lib.rs) and the native replay crate (/verif/replay)
#[macro_use]
#[path = "util.rs"]
pub mod util;

#[path = "h_classes.rs"]
pub mod h_classes;
#[path = "h_datetime_fromstr.rs"]
pub mod h_datetime_fromstr;
#[path = "h_datetime_kernels.rs"]
pub mod h_datetime_kernels;
#[path = "h_encode.rs"]
pub mod h_encode;
#[path = "h_float_writer.rs"]
pub mod h_float_writer;
#[path = "h_float.rs"]
pub mod h_float;
#[path = "h_numbers.rs"]
pub mod h_numbers;
#[path = "h_strings.rs"]
pub mod h_strings;
#[path = "h_trivia.rs"]
pub mod h_trivia;
#[path = "h_position.rs"]
pub mod h_position;
#[path = "h_quoting.rs"]
pub mod h_quoting;
#[path = "h_recursion.rs"]
pub mod h_recursion;
#[path = "h_string_tokens.rs"]
pub mod h_string_tokens;
#[path = "h_string_kernels.rs"]
pub mod h_string_kernels;
// h_string_shapes.rs (ml-basic / ml-literal whole tokens with ONE symbolic content byte) is kept
// for reference but not compiled: none of its 8 harnesses finishes within 25 min
#[path = "h_serde_leaves.rs"]
pub mod h_serde_leaves;
// h_array.rs (C16 probe: toml_edit::Array as a vector) is kept for reference but not compiled:
// push / insert / len / get finish (30-40 s) but remove / replace / clear -- anything that moves an
// `Item` out of the heap buffer or drops one -- do not (> 20 min), so C16 stays not-applicable
#[path = "h_datetime_printer.rs"]
pub mod h_datetime_printer;
// h_error_render.rs (C15: `impl Display for TomlError` through E2, re-rooted crate `te`) is kept for
// reference but not compiled: on documents of <= 2 bytes CBMC aborts at > 24 GB after 11 min
// (`raw.split('\n')`, `line_num.to_string()`); error rendering stays outside the claim
