//! C01/C04: whitespace / newline / comment kernels (parser/trivia.rs)
use crate::util::*;
use refmodel::trivia::*;

/// ws = *wschar: never fails, returns the consumed prefix, which is ASCII (M6) and maximal
#[kani::proof]
#[kani::unwind(6)]
#[kani::stub(core::str::from_utf8, stub_from_utf8)]
pub fn c01_ws_u4() {
    let (buf, len) = any_utf8::<4>();
    let s = &buf[..len];
    match hooks::ws(as_str(s)) {
        Outcome::Ok(o, n) => {
            assert!(n <= len);
            assert!(is_prefix_slice(o, s, n));
            assert!(all_ascii(&s[..n]));
            assert!(r_ws(&s[..n]));
            // `*wschar` directly followed by something else: the match is maximal
            assert!(n == len || !refmodel::classes::r_wschar(s[n]));
            kani::cover!(n > 0 && n < len, "stops at a non-ws byte");
        }
        _ => panic!("ws cannot fail"),
    }
}
lang_kernel!(c01_newline_u3, any_utf8, 3, 5, newline, r_newline);
lang_kernel!(c01_comment_u4, any_utf8, 4, 6, comment, r_comment);
lang_kernel!(c01_line_ending_u3, any_utf8, 3, 5, line_ending, r_line_ending);
lang_kernel_total!(c01_ws_newline_a4, any_ascii, 4, 6, ws_newline, r_ws_newline);
lang_kernel!(c01_ws_newlines_a4, any_ascii, 4, 6, ws_newlines, r_ws_newlines);
lang_kernel!(c01_ws_comment_newline_a4, any_ascii, 4, 6, ws_comment_newline, r_ws_comment_newline);
lang_kernel!(c01_ws_comment_newline_a3, any_ascii, 3, 5, ws_comment_newline, r_ws_comment_newline);

#[kani::proof]
#[kani::unwind(6)]
#[kani::stub(core::str::from_utf8, stub_from_utf8)]
pub fn c01_line_trailing_a4() {
    let (buf, len) = any_ascii::<4>();
    let s = &buf[..len];
    match hooks::line_trailing(as_str(s)) {
        Outcome::Ok(span, n) => {
            assert!(n <= len);
            // the span is that of `ws [comment]`, the rest is the line ending
            assert!(r_line_trailing(&s[..n]) == Some(span.end));
            assert!(span.start == 0);
            kani::cover!(n > 1, "accepts");
        }
        _ => {
            assert!(r_line_trailing(s).is_none());
            kani::cover!(len > 0, "rejects");
        }
    }
}

// ---- deeper bounds (thorough tier) ----
lang_kernel!(c01_comment_u6, any_utf8, 6, 8, comment, r_comment);
lang_kernel!(c01_ws_comment_newline_a5, any_ascii, 5, 7, ws_comment_newline, r_ws_comment_newline);
lang_kernel_total!(c01_ws_newline_a6, any_ascii, 6, 8, ws_newline, r_ws_newline);
