//! C12/C01/C02: two-digit date-time field kernels of toml_edit against RFC 3339 ranges
use crate::util::*;
use refmodel::datetime::*;

macro_rules! two_digit_kernel {
    ($harness:ident, $hook:ident, $reference:ident) => {
        #[kani::proof]
        #[kani::unwind(5)]
        #[kani::stub(core::str::from_utf8, stub_from_utf8)]
        pub fn $harness() {
            let (buf, len) = any_ascii::<3>();
            let s = &buf[..len];
            match hooks::$hook(as_str(s)) {
                Outcome::Ok(v, n) => {
                    // S1/S3: what was consumed is a token of the rule and the value is the
                    // specified one
                    assert!(n <= len);
                    assert!($reference(&s[..n]) == Some(v));
                    kani::cover!(true, "accepting input exists");
                }
                _ => {
                    // S2: a complete token is never refused
                    assert!($reference(s).is_none());
                    kani::cover!(len == 2, "rejecting 2-byte input exists");
                }
            }
        }
    };
}

two_digit_kernel!(c12_time_hour_3, time_hour, v_time_hour);
two_digit_kernel!(c12_time_minute_3, time_minute, v_time_minute);
two_digit_kernel!(c12_time_second_3, time_second, v_time_second);
two_digit_kernel!(c12_date_month_3, date_month, v_date_month);
two_digit_kernel!(c12_date_mday_3, date_mday, v_date_mday);

/// date-fullyear = 4DIGIT (all strings <= 5 bytes; the `expect("4DIGIT should match u8")` is
/// shown panic-free by Kani's default checks)
#[kani::proof]
#[kani::unwind(7)]
#[kani::stub(core::str::from_utf8, stub_from_utf8)]
pub fn c12_date_fullyear_u5() {
    let (buf, len) = any_utf8::<5>();
    let s = &buf[..len];
    match hooks::date_fullyear(as_str(s)) {
        Outcome::Ok(v, n) => {
            assert!(n == 4 && n <= len);
            assert!(v_date_fullyear(&s[..n]) == Some(v));
            kani::cover!(v == 9999, "year 9999");
        }
        _ => {
            assert!(len < 4 || v_date_fullyear(&s[..4]).is_none());
            kani::cover!(len == 4, "rejects 4 bytes");
        }
    }
}

/// time-delim = "T" / "t" / %x20
#[kani::proof]
#[kani::unwind(4)]
#[kani::stub(core::str::from_utf8, stub_from_utf8)]
pub fn c12_time_delim_u2() {
    let (buf, len) = any_utf8::<2>();
    let s = &buf[..len];
    match hooks::time_delim(as_str(s)) {
        Outcome::Ok(v, n) => {
            assert!(n == 1 && v == s[0]);
            assert!(refmodel::classes::r_time_delim(s[0]));
            kani::cover!(v == b't', "lower-case t");
        }
        _ => {
            assert!(len == 0 || !refmodel::classes::r_time_delim(s[0]));
            kani::cover!(len > 0, "rejects");
        }
    }
}

/// time-secfrac: "." + k digits (k = 0..=11, symbolic) + optional junk byte; value is the
/// truncation to nanoseconds
#[kani::proof]
#[kani::unwind(15)]
#[kani::stub(core::str::from_utf8, stub_from_utf8)]
pub fn c12_time_secfrac_shape13() {
    let mut buf = [0u8; 13];
    buf[0] = b'.';
    let k: usize = kani::any();
    kani::assume(k <= 11);
    let mut i = 0;
    while i < 11 {
        buf[1 + i] = any_digit();
        i += 1;
    }
    let junk: u8 = kani::any();
    kani::assume(junk < 0x80 && !(junk >= b'0' && junk <= b'9'));
    let with_junk: bool = kani::any();
    let mut len = 1 + k;
    if with_junk {
        buf[len] = junk;
        len += 1;
    }
    let s = &buf[..len];
    match hooks::time_secfrac(as_str(s)) {
        Outcome::Ok(v, n) => {
            assert!(n == 1 + k);
            assert!(v_time_secfrac(&s[..n]) == Some(v));
            assert!(v <= 999_999_999);
            kani::cover!(k == 11 && v == 999_999_999, "11 digits truncated");
            kani::cover!(k == 1 && v == 100_000_000, "1 digit scaled");
        }
        _ => {
            assert!(k == 0);
            kani::cover!(true, "rejects a bare point");
        }
    }
}

fn eq_offset(a: toml_datetime::Offset, b: ROffset) -> bool {
    match (a, b) {
        (toml_datetime::Offset::Z, ROffset::Z) => true,
        (toml_datetime::Offset::Custom { minutes }, ROffset::Custom(m)) => minutes == m,
        _ => false,
    }
}

/// time-offset, free bytes: all ASCII strings <= 3 bytes (Z / z / truncated numoffsets)
#[kani::proof]
#[kani::unwind(5)]
#[kani::stub(core::str::from_utf8, stub_from_utf8)]
pub fn c12_time_offset_a3() {
    let (buf, len) = any_ascii::<3>();
    let s = &buf[..len];
    match hooks::time_offset(as_str(s)) {
        Outcome::Ok(v, n) => {
            assert!(n <= len);
            match v_time_offset(&s[..n]) {
                Some(r) => {
                    assert!(eq_offset(v, r));
                }
                None => panic!("accepted a non-offset"),
            }
            kani::cover!(s[0] == b'z', "accepts z");
        }
        _ => {
            assert!(v_time_offset(s).is_none());
            kani::cover!(len == 3, "rejects");
        }
    }
}

/// time-offset, shape `[+-]dd:dd` with a free first byte and a free separator
#[kani::proof]
#[kani::unwind(9)]
#[kani::stub(core::str::from_utf8, stub_from_utf8)]
pub fn c12_time_offset_shape6() {
    let mut buf = [0u8; 6];
    let first: u8 = kani::any();
    let sep: u8 = kani::any();
    kani::assume(first < 0x80 && sep < 0x80);
    buf[0] = first;
    buf[1] = any_digit();
    buf[2] = any_digit();
    buf[3] = sep;
    buf[4] = any_digit();
    buf[5] = any_digit();
    let s = &buf[..];
    match hooks::time_offset(as_str(s)) {
        Outcome::Ok(v, n) => {
            match v_time_offset(&s[..n]) {
                Some(r) => {
                    assert!(eq_offset(v, r));
                }
                None => panic!("accepted a non-offset"),
            }
            kani::cover!(n == 6 && first == b'-', "accepts a negative offset");
            kani::cover!(n == 1, "accepts Z followed by digits");
        }
        _ => {
            assert!(v_time_offset(s).is_none());
            kani::cover!(first == b'+' && sep == b':', "rejects an out-of-range numoffset");
        }
    }
}

// ---- composite date-time kernels of toml_edit on free ASCII bytes --------------------------------

pub fn eq_date(a: toml_datetime::Date, r: RDate) -> bool {
    a.year == r.year && a.month == r.month && a.day == r.day
}
pub fn eq_time(a: toml_datetime::Time, r: RTime) -> bool {
    a.hour == r.hour && a.minute == r.minute && a.second == r.second && a.nanosecond == r.nanosecond
}

macro_rules! full_date_ascii {
    ($harness:ident, $n:expr, $unwind:expr) => {
        /// full-date on all ASCII strings <= $n bytes
        #[kani::proof]
        #[kani::unwind($unwind)]
        #[kani::stub(core::str::from_utf8, stub_from_utf8)]
        pub fn $harness() {
            let (buf, len) = any_ascii::<$n>();
            let s = &buf[..len];
            match hooks::full_date(as_str(s)) {
                Outcome::Ok(v, n) => {
                    assert!(n == 10 && n <= len);
                    match v_full_date(&s[..n]) {
                        Some(r) => assert!(eq_date(v, r)),
                        None => panic!("accepted an impossible date"),
                    }
                    kani::cover!(v.month == 2 && v.day == 29, "accepts a 29 February");
                }
                _ => {
                    assert!(len < 10 || v_full_date(&s[..10]).is_none());
                    kani::cover!(len >= 10 && s[4] == b'-' && s[7] == b'-', "rejects a well-shaped impossible date");
                }
            }
        }
    };
}
full_date_ascii!(c12_full_date_a11, 11, 13);

macro_rules! partial_time_ascii {
    ($harness:ident, $n:expr, $unwind:expr) => {
        /// partial-time on all ASCII strings <= $n bytes
        #[kani::proof]
        #[kani::unwind($unwind)]
        #[kani::stub(core::str::from_utf8, stub_from_utf8)]
        pub fn $harness() {
            let (buf, len) = any_ascii::<$n>();
            let s = &buf[..len];
            match hooks::partial_time(as_str(s)) {
                Outcome::Ok(v, n) => {
                    assert!(n >= 8 && n <= len);
                    match v_partial_time(&s[..n]) {
                        Some(r) => assert!(eq_time(v, r)),
                        None => panic!("accepted an impossible time"),
                    }
                    kani::cover!(n > 9, "accepts a fraction");
                }
                _ => {
                    assert!(v_partial_time(s).is_none());
                    kani::cover!(len >= 8 && s[2] == b':' && s[5] == b':', "rejects a well-shaped impossible time");
                }
            }
        }
    };
}
partial_time_ascii!(c12_partial_time_a10, 10, 12);

macro_rules! date_time_ascii {
    ($harness:ident, $n:expr, $unwind:expr) => {
        /// the assembled date-time rule on all ASCII strings <= $n bytes
        #[kani::proof]
        #[kani::unwind($unwind)]
        #[kani::stub(core::str::from_utf8, stub_from_utf8)]
        pub fn $harness() {
            let (buf, len) = any_ascii::<$n>();
            let s = &buf[..len];
            match hooks::date_time(as_str(s)) {
                Outcome::Ok(v, n) => {
                    assert!(n <= len);
                    match v_date_time(&s[..n]) {
                        Some(r) => assert!(crate::h_datetime_fromstr::eq_datetime(&v, &r)),
                        None => panic!("accepted a non-date-time"),
                    }
                    kani::cover!(v.date.is_some() && n == len, "accepts a date form");
                    kani::cover!(v.date.is_none(), "accepts a local time");
                }
                _ => {
                    assert!(v_date_time(s).is_none());
                    kani::cover!(len == $n, "rejects");
                }
            }
        }
    };
}
date_time_ascii!(c12_date_time_a10, 10, 12);

// (the assembled rule on the 25-byte offset-date-time shape -- 18 symbolic digits, 3 free bytes --
// aborts at > 24 GB after ~1300 s; the assembly of date + time + offset is outside the claim)
