//! C01: byte-class tables, exhaustive over the byte (the solver decides all 256 values at once).
use crate::util::*;
use hooks::Class;
use refmodel::classes::*;

#[kani::proof]
pub fn c01_classes_all_bytes() {
    let b: u8 = kani::any();
    assert!(hooks::class_contains(Class::Wschar, b) == r_wschar(b));
    assert!(hooks::class_contains(Class::NonAscii, b) == r_non_ascii(b));
    assert!(hooks::class_contains(Class::NonEol, b) == r_non_eol(b));
    assert!(hooks::class_contains(Class::BasicUnescaped, b) == r_basic_unescaped(b));
    assert!(hooks::class_contains(Class::MlbUnescaped, b) == r_mlb_unescaped(b));
    assert!(hooks::class_contains(Class::LiteralChar, b) == r_literal_char(b));
    assert!(hooks::class_contains(Class::MllChar, b) == r_mll_char(b));
    assert!(hooks::class_contains(Class::UnquotedChar, b) == r_unquoted_char(b));
    assert!(hooks::class_contains(Class::Digit, b) == r_digit(b));
    assert!(hooks::class_contains(Class::Digit19, b) == r_digit1_9(b));
    assert!(hooks::class_contains(Class::Digit07, b) == r_digit0_7(b));
    assert!(hooks::class_contains(Class::Digit01, b) == r_digit0_1(b));
    assert!(hooks::class_contains(Class::Hexdig, b) == r_hexdig(b));
    assert!(hooks::class_contains(Class::DatetimeDigit, b) == r_digit(b));
    assert!(hooks::class_contains(Class::TimeDelim, b) == r_time_delim(b));
    kani::cover!(hooks::class_contains(Class::NonEol, b), "some byte is in a class");
    kani::cover!(!hooks::class_contains(Class::NonEol, b), "some byte is outside a class");
}
