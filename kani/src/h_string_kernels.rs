//! C01/C02/C04: kernels of the string *bodies* (parser/strings.rs): basic_chars, mll_content,
//! mlb_quotes / mll_quotes against both terminators.
//! (The loops that assemble them -- basic_string, ml_basic_body, ml_literal_body -- do not finish
//! under CBMC and are outside the claim.)
use crate::util::*;
use refmodel::classes::*;
use refmodel::strings::*;
use refmodel::trivia::newline_at;
use refmodel::Buf;

fn is_scalar_utf8(v: &[u8], scalar: u32) -> bool {
    let mut b = Buf::<4>::new();
    b.push_scalar(scalar);
    b.eq_bytes(v)
}

/// basic-char run or one escape
#[kani::proof]
#[kani::unwind(7)]
#[kani::stub(core::str::from_utf8, stub_from_utf8)]
pub fn c02_basic_chars_u4() {
    let (buf, len) = any_utf8::<4>();
    let s = &buf[..len];
    match hooks::basic_chars(as_str(s)) {
        Outcome::Ok(v, n) => {
            assert!(n >= 1 && n <= len);
            if s[0] == b'\\' {
                match escape_at(s, 1) {
                    Some(e) => assert!(n == 1 + e.len && is_scalar_utf8(v.as_bytes(), e.scalar)),
                    None => panic!("accepted a bad escape"),
                }
                kani::cover!(n == 2, "a one-letter escape");
            } else {
                // the whole maximal run of basic-unescaped bytes, returned verbatim
                let mut i = 0;
                while i < n {
                    assert!(r_basic_unescaped(s[i]));
                    i += 1;
                }
                assert!(n == len || !r_basic_unescaped(s[n]));
                assert!(refmodel::bytes_eq(v.as_bytes(), &s[..n]));
                kani::cover!(n == 4 && s[0] >= 0x80, "a non-ASCII run");
            }
            let _keep = std::mem::ManuallyDrop::new(v);
        }
        _ => {
            assert!(len == 0 || !r_basic_unescaped(s[0]));
            assert!(len == 0 || s[0] != b'\\' || escape_at(s, 1).is_none());
            kani::cover!(len > 1 && s[0] == b'\\', "rejects a bad escape");
        }
    }
}

// mlb_content and mlb_escaped_nl (nested `repeat`s: `\\` ws newline *(wschar / newline)) were
// measured at 3 ASCII bytes: neither finishes within 900 s.  They are outside the claim; the
// line-continuation rule is covered by the native oracle validation only.

/// mll-content = mll-char / newline
#[kani::proof]
#[kani::unwind(5)]
#[kani::stub(core::str::from_utf8, stub_from_utf8)]
pub fn c02_mll_content_u3() {
    let (buf, len) = any_utf8::<3>();
    let s = &buf[..len];
    match hooks::mll_content(as_str(s)) {
        Outcome::Ok(v, n) => {
            assert!(n >= 1 && n <= len);
            if newline_at(s, 0) != 0 {
                assert!(n == newline_at(s, 0) && v == b'\n');
            } else {
                assert!(n == 1 && r_mll_char(s[0]) && v == s[0]);
            }
            kani::cover!(n == 2, "CRLF");
            kani::cover!(s[0] >= 0x80, "a non-ASCII byte");
        }
        _ => {
            assert!(len == 0 || (!r_mll_char(s[0]) && newline_at(s, 0) == 0));
            kani::cover!(len > 0 && s[0] == b'\'', "rejects an apostrophe");
            kani::cover!(len > 0 && s[0] == 0x7F, "rejects DEL");
        }
    }
}

macro_rules! quotes_kernel {
    ($harness:ident, $hook:ident, $q:expr, $at_end:expr) => {
        #[kani::proof]
        #[kani::unwind(9)]
        #[kani::stub(core::str::from_utf8, stub_from_utf8)]
        pub fn $harness() {
            let (buf, len) = any_ascii::<6>();
            let s = &buf[..len];
            let want = ml_quotes_at_start(s, $q, $at_end);
            match hooks::$hook(as_str(s)) {
                Outcome::Ok(o, n) => {
                    assert!(want == Some(n));
                    assert!(is_prefix_slice(o, s, n));
                    kani::cover!(n == 2, "two quotes");
                    kani::cover!(n == 1, "one quote");
                }
                _ => {
                    assert!(want.is_none());
                    kani::cover!(len >= 3 && s[0] == $q && s[1] == $q && s[2] == $q, "rejects a run of three");
                }
            }
        }
    };
}
quotes_kernel!(c01_mlb_quotes_body_a6, mlb_quotes_body, b'"', false);
quotes_kernel!(c01_mlb_quotes_end_a6, mlb_quotes_end, b'"', true);
quotes_kernel!(c01_mll_quotes_body_a6, mll_quotes_body, b'\'', false);
quotes_kernel!(c01_mll_quotes_end_a6, mll_quotes_end, b'\'', true);
