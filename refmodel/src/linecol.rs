//! Line / column of a byte index (C15): "reports the line and column of the span start (counting
//! characters, not bytes, and pointing one past the last line's end at end of input)".

/// Is `b` the first byte of a UTF-8 encoded character (i.e. not a continuation byte)?
pub fn is_char_start(b: u8) -> bool {
    (b & 0xC0) != 0x80
}

/// 0-based (line, column) of byte `index` in `input` (valid UTF-8, `index <= input.len()`,
/// `index` on a character boundary).
///
/// * line = number of LF strictly before the *located byte*;
/// * column = number of characters between the start of that line and the located byte;
/// * at end of input (`index == len > 0`) the located byte is the last byte of the input and the
///   column is one more than that byte's character column ("one past the last line's end"):
///   after `"a\n"` the position is line 0, column 2, not line 1, column 0.
pub fn r_linecol(input: &[u8], index: usize) -> (usize, usize) {
    if input.is_empty() {
        return (0, index);
    }
    let (at, extra) = if index >= input.len() {
        (input.len() - 1, index - (input.len() - 1))
    } else {
        (index, 0)
    };
    // start of the character that contains byte `at`
    let mut cs = at;
    while cs > 0 && !is_char_start(input[cs]) {
        cs -= 1;
    }
    let mut line = 0;
    let mut line_start = 0;
    let mut i = 0;
    while i < cs {
        if input[i] == b'\n' {
            line += 1;
            line_start = i + 1;
        }
        i += 1;
    }
    let mut col = 0;
    let mut j = line_start;
    while j < cs {
        if is_char_start(input[j]) {
            col += 1;
        }
        j += 1;
    }
    (line, col + extra)
}
