//! Date-times: RFC 3339 section 5.6 as profiled by toml.abnf, with the field ranges of the
//! properties (month 1-12, day by month and leap year, hour 0-23, minute 0-59, second 0-60,
//! offset hour 0-23 / minute 0-59, fractional seconds truncated to nanoseconds).
use crate::classes::*;

#[derive(Clone, Copy, Debug, PartialEq, Eq)]
pub struct RDate {
    pub year: u16,
    pub month: u8,
    pub day: u8,
}

#[derive(Clone, Copy, Debug, PartialEq, Eq)]
pub struct RTime {
    pub hour: u8,
    pub minute: u8,
    pub second: u8,
    pub nanosecond: u32,
}

#[derive(Clone, Copy, Debug, PartialEq, Eq)]
pub enum ROffset {
    Z,
    /// minutes east of UTC
    Custom(i16),
}

#[derive(Clone, Copy, Debug, PartialEq, Eq)]
pub struct RDatetime {
    pub date: Option<RDate>,
    pub time: Option<RTime>,
    pub offset: Option<ROffset>,
}

/// exactly `n` DIGITs at `s[i..]` -> value
fn digits_at(s: &[u8], i: usize, n: usize) -> Option<u32> {
    if i + n > s.len() {
        return None;
    }
    let mut v = 0u32;
    let mut k = 0;
    while k < n {
        let b = s[i + k];
        if !r_digit(b) {
            return None;
        }
        v = v * 10 + (b - b'0') as u32;
        k += 1;
    }
    Some(v)
}

/// Gregorian leap year (RFC 3339 appendix C)
pub fn is_leap_year(year: u16) -> bool {
    year % 4 == 0 && (year % 100 != 0 || year % 400 == 0)
}

/// RFC 3339 section 5.7: maximum `date-mday` by month
pub fn days_in_month(year: u16, month: u8) -> u8 {
    match month {
        1 | 3 | 5 | 7 | 8 | 10 | 12 => 31,
        4 | 6 | 9 | 11 => 30,
        2 => {
            if is_leap_year(year) {
                29
            } else {
                28
            }
        }
        _ => 0,
    }
}

// date-fullyear  = 4DIGIT
pub fn v_date_fullyear(s: &[u8]) -> Option<u16> {
    if s.len() != 4 {
        return None;
    }
    digits_at(s, 0, 4).map(|v| v as u16)
}
fn two(s: &[u8], lo: u32, hi: u32) -> Option<u8> {
    if s.len() != 2 {
        return None;
    }
    match digits_at(s, 0, 2) {
        Some(v) if v >= lo && v <= hi => Some(v as u8),
        _ => None,
    }
}
// date-month     = 2DIGIT  ; 01-12
pub fn v_date_month(s: &[u8]) -> Option<u8> {
    two(s, 1, 12)
}
// date-mday      = 2DIGIT  ; 01-28, 01-29, 01-30, 01-31 based on month/year
/// (without month/year context: 01-31)
pub fn v_date_mday(s: &[u8]) -> Option<u8> {
    two(s, 1, 31)
}
// time-hour      = 2DIGIT  ; 00-23
pub fn v_time_hour(s: &[u8]) -> Option<u8> {
    two(s, 0, 23)
}
// time-minute    = 2DIGIT  ; 00-59
pub fn v_time_minute(s: &[u8]) -> Option<u8> {
    two(s, 0, 59)
}
// time-second    = 2DIGIT  ; 00-58, 00-59, 00-60 based on leap second rules
/// (the properties fix the reading "0-60 always accepted", DESIGN.md U1-c)
pub fn v_time_second(s: &[u8]) -> Option<u8> {
    two(s, 0, 60)
}

// full-date      = date-fullyear "-" date-month "-" date-mday
pub fn v_full_date(s: &[u8]) -> Option<RDate> {
    if s.len() != 10 || s[4] != b'-' || s[7] != b'-' {
        return None;
    }
    let year = v_date_fullyear(&s[0..4])?;
    let month = v_date_month(&s[5..7])?;
    let day = v_date_mday(&s[8..10])?;
    if day > days_in_month(year, month) {
        return None;
    }
    Some(RDate { year, month, day })
}

// time-secfrac   = "." 1*DIGIT
/// "If the value contains greater precision than the implementation can support, the additional
/// precision must be truncated, not rounded."  Unit: nanoseconds.
pub fn v_time_secfrac(s: &[u8]) -> Option<u32> {
    if s.len() < 2 || s[0] != b'.' {
        return None;
    }
    let mut ns: u32 = 0;
    let mut i = 1;
    while i < s.len() {
        if !r_digit(s[i]) {
            return None;
        }
        if i <= 9 {
            ns = ns * 10 + (s[i] - b'0') as u32;
        }
        i += 1;
    }
    // scale up to 9 digits
    let mut d = s.len() - 1;
    while d < 9 {
        ns *= 10;
        d += 1;
    }
    Some(ns)
}

// partial-time   = time-hour ":" time-minute ":" time-second [ time-secfrac ]
pub fn v_partial_time(s: &[u8]) -> Option<RTime> {
    if s.len() < 8 || s[2] != b':' || s[5] != b':' {
        return None;
    }
    let hour = v_time_hour(&s[0..2])?;
    let minute = v_time_minute(&s[3..5])?;
    let second = v_time_second(&s[6..8])?;
    let nanosecond = if s.len() > 8 {
        v_time_secfrac(&s[8..])?
    } else {
        0
    };
    Some(RTime {
        hour,
        minute,
        second,
        nanosecond,
    })
}

// time-numoffset = ( "+" / "-" ) time-hour ":" time-minute
// time-offset    = "Z" / time-numoffset
pub fn v_time_offset(s: &[u8]) -> Option<ROffset> {
    if s.len() == 1 && (s[0] == b'Z' || s[0] == b'z') {
        return Some(ROffset::Z);
    }
    if s.len() != 6 || !(s[0] == b'+' || s[0] == b'-') || s[3] != b':' {
        return None;
    }
    let h = v_time_hour(&s[1..3])? as i16;
    let m = v_time_minute(&s[4..6])? as i16;
    let total = h * 60 + m;
    Some(ROffset::Custom(if s[0] == b'-' { -total } else { total }))
}

// date-time      = offset-date-time / local-date-time / local-date / local-time
// offset-date-time = full-date time-delim full-time
// local-date-time = full-date time-delim partial-time
// local-date = full-date
// local-time = partial-time
// full-time      = partial-time time-offset
pub fn v_date_time(s: &[u8]) -> Option<RDatetime> {
    // local-time: starts "HH:"
    if s.len() >= 3 && s[2] == b':' {
        let t = v_partial_time(s)?;
        return Some(RDatetime {
            date: None,
            time: Some(t),
            offset: None,
        });
    }
    if s.len() < 10 {
        return None;
    }
    let date = v_full_date(&s[0..10])?;
    if s.len() == 10 {
        return Some(RDatetime {
            date: Some(date),
            time: None,
            offset: None,
        });
    }
    if !r_time_delim(s[10]) {
        return None;
    }
    // partial-time is "HH:MM:SS" + optional "." DIGIT+ ; the offset starts at the first byte
    // after it that is not a digit/'.' continuation of the fraction
    if s.len() < 19 {
        return None;
    }
    let mut e = 19;
    if e < s.len() && s[e] == b'.' {
        e += 1;
        while e < s.len() && r_digit(s[e]) {
            e += 1;
        }
    }
    let time = v_partial_time(&s[11..e])?;
    let offset = if e == s.len() {
        None
    } else {
        Some(v_time_offset(&s[e..])?)
    };
    Some(RDatetime {
        date: Some(date),
        time: Some(time),
        offset,
    })
}
