//! Reference models: the oracle of every check in /verif.
//!
//! Each function is a direct transcription of one fragment of `toml.abnf` (tag 1.0.0), of RFC 3339
//! section 5.6, or of a prose rule of the TOML 1.0.0 specification; the grammar line is quoted
//! above it.  The functions are first-order, never allocate and never call the code under test.
//!
//! Conventions
//! * `r_<rule>(s) -> bool`: *the whole of* `s` is derivable from `<rule>` (language membership).
//! * `v_<rule>(s) -> value`: the value the specification assigns to `s`, defined when `r_<rule>(s)`.
//! * ABNF quoted strings are case-insensitive (`"e"`, `"T"`, `"Z"`), `%x` terminals are not.
#![no_std]
#![allow(clippy::manual_range_contains, clippy::needless_range_loop)]

pub mod classes;
pub mod datetime;
pub mod linecol;
pub mod models;
pub mod numbers;
pub mod strings;
pub mod trivia;

/// Fixed-capacity output buffer for reference decoders / encoders
#[derive(Clone, Copy, Debug)]
pub struct Buf<const N: usize> {
    pub b: [u8; N],
    pub len: usize,
    pub overflow: bool,
}

impl<const N: usize> Default for Buf<N> {
    fn default() -> Self {
        Self::new()
    }
}

impl<const N: usize> Buf<N> {
    pub const fn new() -> Self {
        Self {
            b: [0; N],
            len: 0,
            overflow: false,
        }
    }
    pub fn push(&mut self, byte: u8) {
        if self.len < N {
            self.b[self.len] = byte;
            self.len += 1;
        } else {
            self.overflow = true;
        }
    }
    pub fn as_slice(&self) -> &[u8] {
        &self.b[..self.len]
    }
    /// UTF-8 encoding of a Unicode scalar value (RFC 3629)
    pub fn push_scalar(&mut self, c: u32) {
        if c < 0x80 {
            self.push(c as u8);
        } else if c < 0x800 {
            self.push(0xC0 | (c >> 6) as u8);
            self.push(0x80 | (c & 0x3F) as u8);
        } else if c < 0x10000 {
            self.push(0xE0 | (c >> 12) as u8);
            self.push(0x80 | ((c >> 6) & 0x3F) as u8);
            self.push(0x80 | (c & 0x3F) as u8);
        } else {
            self.push(0xF0 | (c >> 18) as u8);
            self.push(0x80 | ((c >> 12) & 0x3F) as u8);
            self.push(0x80 | ((c >> 6) & 0x3F) as u8);
            self.push(0x80 | (c & 0x3F) as u8);
        }
    }
    pub fn eq_bytes(&self, other: &[u8]) -> bool {
        if self.overflow || self.len != other.len() {
            return false;
        }
        let mut i = 0;
        while i < self.len {
            if self.b[i] != other[i] {
                return false;
            }
            i += 1;
        }
        true
    }
}

/// Byte-wise slice equality as an explicit loop (keeps solver unwinding explicit)
pub fn bytes_eq(a: &[u8], b: &[u8]) -> bool {
    if a.len() != b.len() {
        return false;
    }
    let mut i = 0;
    while i < a.len() {
        if a[i] != b[i] {
            return false;
        }
        i += 1;
    }
    true
}

/// A Unicode scalar value: any code point except the surrogates (Unicode 3.9 D76)
pub fn is_scalar_value(c: u32) -> bool {
    c <= 0x10FFFF && !(c >= 0xD800 && c <= 0xDFFF)
}

/// Well-formed UTF-8 (Unicode 15 table 3-7 / RFC 3629): the precondition of every `&str` input
pub fn utf8_valid(s: &[u8]) -> bool {
    let mut i = 0;
    while i < s.len() {
        let b0 = s[i];
        if b0 < 0x80 {
            i += 1;
        } else if b0 >= 0xC2 && b0 <= 0xDF {
            if i + 1 >= s.len() || !is_cont(s[i + 1]) {
                return false;
            }
            i += 2;
        } else if b0 >= 0xE0 && b0 <= 0xEF {
            if i + 2 >= s.len() {
                return false;
            }
            let b1 = s[i + 1];
            let ok1 = match b0 {
                0xE0 => b1 >= 0xA0 && b1 <= 0xBF,
                0xED => b1 >= 0x80 && b1 <= 0x9F,
                _ => is_cont(b1),
            };
            if !ok1 || !is_cont(s[i + 2]) {
                return false;
            }
            i += 3;
        } else if b0 >= 0xF0 && b0 <= 0xF4 {
            if i + 3 >= s.len() {
                return false;
            }
            let b1 = s[i + 1];
            let ok1 = match b0 {
                0xF0 => b1 >= 0x90 && b1 <= 0xBF,
                0xF4 => b1 >= 0x80 && b1 <= 0x8F,
                _ => is_cont(b1),
            };
            if !ok1 || !is_cont(s[i + 2]) || !is_cont(s[i + 3]) {
                return false;
            }
            i += 4;
        } else {
            return false;
        }
    }
    true
}

fn is_cont(b: u8) -> bool {
    b & 0xC0 == 0x80
}
