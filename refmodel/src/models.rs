//! Environment models (DESIGN.md 2.3): plain-Rust stand-ins for std functions that CBMC cannot
//! finish on.  They are *not* part of the oracle; they replace std code inside the code under
//! test in the Kani build only (`#[kani::stub]`), and each is validated natively against the std
//! function it replaces (/verif/native/tests/models.rs, run by ./setup).
extern crate alloc;
use alloc::string::String;
use alloc::vec::Vec;

/// M2: `s.replace('_', "")` as a byte loop with one constant-size allocation and no growth path
/// (a `Vec` that may reallocate turns every later read of the result into a read through a
/// symbolic pointer, which is what makes CBMC explode).
pub const M2_CAP: usize = 72;
pub fn replace_underscore(s: &str) -> String {
    let b = s.as_bytes();
    assert!(b.len() <= M2_CAP, "M2 model capacity");
    let mut tmp = [0u8; M2_CAP];
    let mut n = 0;
    let mut i = 0;
    while i < b.len() {
        if b[i] != b'_' {
            tmp[n] = b[i];
            n += 1;
        }
        i += 1;
    }
    let mut v: Vec<u8> = Vec::from(tmp);
    // SAFETY: n <= M2_CAP; removing the ASCII byte '_' from valid UTF-8 leaves valid UTF-8
    unsafe {
        v.set_len(n);
        String::from_utf8_unchecked(v)
    }
}

/// M7: `core::str::from_utf8` as a plain validating loop.  The error value is an arbitrary
/// `Utf8Error` (callers in the code under test only look at Ok/Err).
pub fn from_utf8(v: &[u8]) -> Result<&str, core::str::Utf8Error> {
    if crate::utf8_valid(v) {
        // SAFETY: just validated
        Ok(unsafe { core::str::from_utf8_unchecked(v) })
    } else {
        let mut bad = [0xFFu8];
        match core::str::from_utf8_mut(&mut bad) {
            Err(e) => Err(e),
            Ok(_) => unreachable!(),
        }
    }
}

/// M3, deterministic part: what std's `<f64 as FromStr>::from_str` documents for a float literal
/// of the bounded shape  [+-]? d [ "." d ] [ ("e"|"E") [+-]? d{1,3} ].
#[derive(Clone, Copy, Debug, PartialEq, Eq)]
pub struct FloatFacts {
    pub negative: bool,
    /// the decimal value rounds above f64::MAX
    pub infinite: bool,
    /// the result is (+-) zero
    pub zero: bool,
}

/// `None` when `s` is outside the shape.
///
/// value = d1.d2 * 10^e.  With order := e if d1 != 0 else e-1 the value lies in [1,10)*10^order
/// (or is 0).  f64::MAX = 1.7976931348623157e308 and every two-digit mantissa >= 1.8 at order 308
/// rounds to infinity, so within the shape:
///   infinite <=> mantissa != 0 && (order >= 309 || (order == 308 && leading two digits >= 18))
/// The smallest positive double is 4.9e-324 (round-to-nearest: anything <= 2.47e-324 becomes 0),
/// so: zero <=> mantissa == 0 || order <= -325 || (order == -324 && leading two digits <= 24).
pub fn float_facts(s: &[u8]) -> Option<FloatFacts> {
    let b = s;
    let mut i = 0;
    let negative = !b.is_empty() && b[0] == b'-';
    if i < b.len() && (b[i] == b'-' || b[i] == b'+') {
        i += 1;
    }
    if !(i < b.len() && b[i].is_ascii_digit()) {
        return None;
    }
    let d1 = (b[i] - b'0') as i32;
    i += 1;
    let mut d2 = 0i32;
    if i < b.len() && b[i] == b'.' {
        if !(i + 1 < b.len() && b[i + 1].is_ascii_digit()) {
            return None;
        }
        d2 = (b[i + 1] - b'0') as i32;
        i += 2;
    }
    let mut e: i32 = 0;
    if i < b.len() {
        if !(b[i] == b'e' || b[i] == b'E') {
            return None;
        }
        i += 1;
        let mut eneg = false;
        if i < b.len() && (b[i] == b'-' || b[i] == b'+') {
            eneg = b[i] == b'-';
            i += 1;
        }
        let mut nd = 0;
        while i < b.len() {
            if !(b[i].is_ascii_digit() && nd < 3) {
                return None;
            }
            e = e * 10 + (b[i] - b'0') as i32;
            nd += 1;
            i += 1;
        }
        if nd == 0 {
            return None;
        }
        if eneg {
            e = -e;
        }
    }
    let mant = d1 * 10 + d2;
    let order = if d1 != 0 { e } else { e - 1 };
    let lead2 = if d1 != 0 { mant } else { d2 * 10 };
    let infinite = mant != 0 && (order >= 309 || (order == 308 && lead2 >= 18));
    let zero = mant == 0 || order <= -325 || (order == -324 && lead2 <= 24);
    Some(FloatFacts {
        negative,
        infinite,
        zero,
    })
}

/// M9: `core::str::count::count_chars` (the engine of `str::chars().count()`) as a plain loop
/// counting the bytes that are not UTF-8 continuation bytes.  std's version switches to a
/// word-at-a-time algorithm over `align_to::<usize>()` for strings of 32 bytes and more; with a
/// symbolic length CBMC has to encode that branch too, which alone exceeds 16 GB.
pub fn count_chars(s: &str) -> usize {
    let b = s.as_bytes();
    let mut n = 0;
    let mut i = 0;
    while i < b.len() {
        if (b[i] as i8) >= -0x40 {
            n += 1;
        }
        i += 1;
    }
    n
}

/// M10: `str::contains("\r\n")` and `str::replace("\r\n", "\n")` -- the only patterns
/// `parser/strings.rs::ml_literal_string` passes -- as plain byte loops (std's `&str` searcher pulls
/// in `simd_contains`, the two-way searcher and `memchr`).  One constant-size allocation.
pub fn contains_crlf(s: &str) -> bool {
    let b = s.as_bytes();
    let mut i = 0;
    while i + 1 < b.len() {
        if b[i] == b'\r' && b[i + 1] == b'\n' {
            return true;
        }
        i += 1;
    }
    false
}
pub fn replace_crlf_with_lf(s: &str) -> String {
    let b = s.as_bytes();
    assert!(b.len() <= M2_CAP, "M10 model capacity");
    let mut tmp = [0u8; M2_CAP];
    let mut n = 0;
    let mut i = 0;
    while i < b.len() {
        if b[i] == b'\r' && i + 1 < b.len() && b[i + 1] == b'\n' {
            tmp[n] = b'\n';
            i += 2;
        } else {
            tmp[n] = b[i];
            i += 1;
        }
        n += 1;
    }
    let mut v: Vec<u8> = Vec::from(tmp);
    // SAFETY: n <= M2_CAP; dropping the ASCII byte '\r' from valid UTF-8 leaves valid UTF-8
    unsafe {
        v.set_len(n);
        String::from_utf8_unchecked(v)
    }
}
