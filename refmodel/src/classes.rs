//! Byte classes of toml.abnf (as they appear on UTF-8 *bytes*: `non-ascii` is any byte >= 0x80,
//! the input being valid UTF-8 by precondition).

// wschar =  %x20  ; Space
// wschar =/ %x09  ; Horizontal tab
pub fn r_wschar(b: u8) -> bool {
    b == 0x20 || b == 0x09
}

// non-ascii = %x80-D7FF / %xE000-10FFFF      (on bytes of valid UTF-8: 0x80..=0xFF)
pub fn r_non_ascii(b: u8) -> bool {
    b >= 0x80
}

// non-eol = %x09 / %x20-7F / non-ascii        <- toml.abnf 1.0.0 reads "%x20-7F" in the *grammar*,
// while the prose says "Control characters other than tab (U+0000 to U+0008, U+000A to U+001F,
// U+007F) are not permitted in comments."  The prose rule (and toml-test) excludes DEL.
pub fn r_non_eol(b: u8) -> bool {
    b == 0x09 || (b >= 0x20 && b <= 0x7E) || r_non_ascii(b)
}

// basic-unescaped = wschar / %x21 / %x23-5B / %x5D-7E / non-ascii
pub fn r_basic_unescaped(b: u8) -> bool {
    r_wschar(b) || b == 0x21 || (b >= 0x23 && b <= 0x5B) || (b >= 0x5D && b <= 0x7E) || r_non_ascii(b)
}

// mlb-unescaped = wschar / %x21 / %x23-5B / %x5D-7E / non-ascii
pub fn r_mlb_unescaped(b: u8) -> bool {
    r_basic_unescaped(b)
}

// literal-char = %x09 / %x20-26 / %x28-7E / non-ascii
pub fn r_literal_char(b: u8) -> bool {
    b == 0x09 || (b >= 0x20 && b <= 0x26) || (b >= 0x28 && b <= 0x7E) || r_non_ascii(b)
}

// mll-char = %x09 / %x20-26 / %x28-7E / non-ascii
pub fn r_mll_char(b: u8) -> bool {
    r_literal_char(b)
}

// ALPHA = %x41-5A / %x61-7A ; A-Z / a-z
pub fn r_alpha(b: u8) -> bool {
    (b >= 0x41 && b <= 0x5A) || (b >= 0x61 && b <= 0x7A)
}

// DIGIT = %x30-39 ; 0-9
pub fn r_digit(b: u8) -> bool {
    b >= 0x30 && b <= 0x39
}

// digit1-9 = %x31-39                 ; 1-9
pub fn r_digit1_9(b: u8) -> bool {
    b >= 0x31 && b <= 0x39
}

// digit0-7 = %x30-37                 ; 0-7
pub fn r_digit0_7(b: u8) -> bool {
    b >= 0x30 && b <= 0x37
}

// digit0-1 = %x30-31                 ; 0-1
pub fn r_digit0_1(b: u8) -> bool {
    b == 0x30 || b == 0x31
}

// HEXDIG = DIGIT / "A" / "B" / "C" / "D" / "E" / "F"      (quoted => case-insensitive)
pub fn r_hexdig(b: u8) -> bool {
    r_digit(b) || (b >= b'A' && b <= b'F') || (b >= b'a' && b <= b'f')
}

// unquoted-key = 1*( ALPHA / DIGIT / %x2D / %x5F ) ; A-Z / a-z / 0-9 / - / _
pub fn r_unquoted_char(b: u8) -> bool {
    r_alpha(b) || r_digit(b) || b == 0x2D || b == 0x5F
}

// time-delim     = "T" / %x20 ; T, t, or space
pub fn r_time_delim(b: u8) -> bool {
    b == b'T' || b == b't' || b == 0x20
}

/// value of a HEXDIG
pub fn v_hexdig(b: u8) -> u32 {
    if r_digit(b) {
        (b - b'0') as u32
    } else if b >= b'a' {
        (b - b'a') as u32 + 10
    } else {
        (b - b'A') as u32 + 10
    }
}
