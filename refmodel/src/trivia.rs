//! Whitespace, newline, comment
use crate::classes::*;

// ws = *wschar
pub fn r_ws(s: &[u8]) -> bool {
    let mut i = 0;
    while i < s.len() {
        if !r_wschar(s[i]) {
            return false;
        }
        i += 1;
    }
    true
}

// newline =  %x0A     ; LF
// newline =/ %x0D.0A  ; CRLF
pub fn r_newline(s: &[u8]) -> bool {
    (s.len() == 1 && s[0] == 0x0A) || (s.len() == 2 && s[0] == 0x0D && s[1] == 0x0A)
}

/// length of the newline at `s[i..]`, 0 if none
pub fn newline_at(s: &[u8], i: usize) -> usize {
    if i < s.len() && s[i] == 0x0A {
        1
    } else if i + 1 < s.len() && s[i] == 0x0D && s[i + 1] == 0x0A {
        2
    } else {
        0
    }
}

// comment-start-symbol = %x23 ; #
// comment = comment-start-symbol *non-eol
pub fn r_comment(s: &[u8]) -> bool {
    if s.is_empty() || s[0] != 0x23 {
        return false;
    }
    let mut i = 1;
    while i < s.len() {
        if !r_non_eol(s[i]) {
            return false;
        }
        i += 1;
    }
    true
}

// (toml_edit helper rule) line-ending = newline / eof
pub fn r_line_ending(s: &[u8]) -> bool {
    s.is_empty() || r_newline(s)
}

// (toml_edit helper rule) ws-newline = *( wschar / newline )
pub fn r_ws_newline(s: &[u8]) -> bool {
    let mut i = 0;
    while i < s.len() {
        if r_wschar(s[i]) {
            i += 1;
        } else {
            let n = newline_at(s, i);
            if n == 0 {
                return false;
            }
            i += n;
        }
    }
    true
}

// (toml_edit helper rule) ws-newlines = newline *( wschar / newline )
pub fn r_ws_newlines(s: &[u8]) -> bool {
    let n = newline_at(s, 0);
    n != 0 && r_ws_newline(&s[n..])
}

// ws-comment-newline = *( wschar / [ comment ] newline )
pub fn r_ws_comment_newline(s: &[u8]) -> bool {
    let mut i = 0;
    while i < s.len() {
        if r_wschar(s[i]) {
            i += 1;
        } else if s[i] == 0x23 {
            // comment: up to, not including, the newline that must follow
            i += 1;
            while i < s.len() && r_non_eol(s[i]) {
                i += 1;
            }
            let n = newline_at(s, i);
            if n == 0 {
                return false;
            }
            i += n;
        } else {
            let n = newline_at(s, i);
            if n == 0 {
                return false;
            }
            i += n;
        }
    }
    true
}

// (toml_edit helper rule) line-trailing = ws [ comment ] ( newline / eof )
// returns the length of `ws [comment]` when the whole of `s` matches
pub fn r_line_trailing(s: &[u8]) -> Option<usize> {
    let mut i = 0;
    while i < s.len() && r_wschar(s[i]) {
        i += 1;
    }
    if i < s.len() && s[i] == 0x23 {
        i += 1;
        while i < s.len() && r_non_eol(s[i]) {
            i += 1;
        }
    }
    if i == s.len() || (newline_at(s, i) != 0 && i + newline_at(s, i) == s.len()) {
        Some(i)
    } else {
        None
    }
}
