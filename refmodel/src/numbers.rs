//! Booleans, integers, floats
use crate::classes::*;

// true    = %x74.72.75.65     ; true
pub fn r_true(s: &[u8]) -> bool {
    s.len() == 4 && s[0] == 0x74 && s[1] == 0x72 && s[2] == 0x75 && s[3] == 0x65
}
// false   = %x66.61.6C.73.65  ; false
pub fn r_false(s: &[u8]) -> bool {
    s.len() == 5 && s[0] == 0x66 && s[1] == 0x61 && s[2] == 0x6C && s[3] == 0x73 && s[4] == 0x65
}

/// `first ( digit / "_" digit )*` over the digit class `is`: the shared shape of
/// `unsigned-dec-int` tails, `hex-int`, `oct-int`, `bin-int` and `zero-prefixable-int`:
///   X *( X / underscore X )
fn r_grouped<F: Fn(u8) -> bool>(s: &[u8], is: F) -> bool {
    if s.is_empty() || !is(s[0]) {
        return false;
    }
    let mut i = 1;
    while i < s.len() {
        if is(s[i]) {
            i += 1;
        } else if s[i] == b'_' && i + 1 < s.len() && is(s[i + 1]) {
            i += 2;
        } else {
            return false;
        }
    }
    true
}

// unsigned-dec-int = DIGIT / digit1-9 1*( DIGIT / underscore DIGIT )
pub fn r_unsigned_dec_int(s: &[u8]) -> bool {
    if s.len() == 1 {
        return r_digit(s[0]);
    }
    !s.is_empty() && r_digit1_9(s[0]) && r_grouped(s, r_digit)
}

// dec-int = [ minus / plus ] unsigned-dec-int
pub fn r_dec_int(s: &[u8]) -> bool {
    if !s.is_empty() && (s[0] == b'+' || s[0] == b'-') {
        r_unsigned_dec_int(&s[1..])
    } else {
        r_unsigned_dec_int(s)
    }
}

// hex-prefix = %x30.78               ; 0x
// hex-int = hex-prefix HEXDIG *( HEXDIG / underscore HEXDIG )
pub fn r_hex_int(s: &[u8]) -> bool {
    s.len() >= 3 && s[0] == 0x30 && s[1] == 0x78 && r_grouped(&s[2..], r_hexdig)
}
// oct-prefix = %x30.6F               ; 0o
// oct-int = oct-prefix digit0-7 *( digit0-7 / underscore digit0-7 )
pub fn r_oct_int(s: &[u8]) -> bool {
    s.len() >= 3 && s[0] == 0x30 && s[1] == 0x6F && r_grouped(&s[2..], r_digit0_7)
}
// bin-prefix = %x30.62               ; 0b
// bin-int = bin-prefix digit0-1 *( digit0-1 / underscore digit0-1 )
pub fn r_bin_int(s: &[u8]) -> bool {
    s.len() >= 3 && s[0] == 0x30 && s[1] == 0x62 && r_grouped(&s[2..], r_digit0_1)
}

// integer = dec-int / hex-int / oct-int / bin-int
pub fn r_integer(s: &[u8]) -> bool {
    r_dec_int(s) || r_hex_int(s) || r_oct_int(s) || r_bin_int(s)
}

/// Saturation bound of `v_integer`: any magnitude >= 2^100 is reported as `CAP`
pub const CAP: i128 = 1i128 << 100;

fn accumulate(s: &[u8], radix: i128) -> i128 {
    let mut v: i128 = 0;
    let mut i = 0;
    while i < s.len() {
        if s[i] != b'_' {
            v = v * radix + v_hexdig(s[i]) as i128;
            if v >= CAP {
                v = CAP;
            }
        }
        i += 1;
    }
    v
}

/// Mathematical value of an `integer` literal (saturating at +-2^100); defined when `r_integer(s)`
pub fn v_integer(s: &[u8]) -> i128 {
    if r_hex_int(s) {
        accumulate(&s[2..], 16)
    } else if r_oct_int(s) {
        accumulate(&s[2..], 8)
    } else if r_bin_int(s) {
        accumulate(&s[2..], 2)
    } else if !s.is_empty() && s[0] == b'-' {
        -accumulate(&s[1..], 10)
    } else if !s.is_empty() && s[0] == b'+' {
        accumulate(&s[1..], 10)
    } else {
        accumulate(s, 10)
    }
}

/// "Arbitrary 64-bit signed integers (from -2^63 to 2^63-1) should be accepted and handled
/// losslessly.  If an integer cannot be represented losslessly, an error must be thrown."
pub fn fits_i64(v: i128) -> bool {
    v >= i64::MIN as i128 && v <= i64::MAX as i128
}

// zero-prefixable-int = DIGIT *( DIGIT / underscore DIGIT )
pub fn r_zero_prefixable_int(s: &[u8]) -> bool {
    r_grouped(s, r_digit)
}

// frac = decimal-point zero-prefixable-int
// decimal-point = %x2E               ; .
pub fn r_frac(s: &[u8]) -> bool {
    !s.is_empty() && s[0] == 0x2E && r_zero_prefixable_int(&s[1..])
}

// exp = "e" float-exp-part
// float-exp-part = [ minus / plus ] zero-prefixable-int
pub fn r_exp(s: &[u8]) -> bool {
    if s.is_empty() || !(s[0] == b'e' || s[0] == b'E') {
        return false;
    }
    if s.len() >= 2 && (s[1] == b'+' || s[1] == b'-') {
        r_zero_prefixable_int(&s[2..])
    } else {
        r_zero_prefixable_int(&s[1..])
    }
}

// float = float-int-part ( exp / frac [ exp ] )
// float-int-part = dec-int
pub fn r_float_syntax(s: &[u8]) -> bool {
    // split at the first '.', 'e' or 'E': none of them can occur inside dec-int
    let mut k = 0;
    while k < s.len() && !(s[k] == b'.' || s[k] == b'e' || s[k] == b'E') {
        k += 1;
    }
    if k == s.len() || !r_dec_int(&s[..k]) {
        return false;
    }
    if s[k] == b'.' {
        // frac [exp]: the exponent, if any, starts at the first 'e'/'E' after the point
        let mut e = k + 1;
        while e < s.len() && !(s[e] == b'e' || s[e] == b'E') {
            e += 1;
        }
        r_frac(&s[k..e]) && (e == s.len() || r_exp(&s[e..]))
    } else {
        r_exp(&s[k..])
    }
}

// special-float = [ minus / plus ] ( inf / nan )
// inf = %x69.6e.66  ; inf
// nan = %x6e.61.6e  ; nan
#[derive(Clone, Copy, Debug, PartialEq, Eq)]
pub enum Special {
    Inf { negative: bool },
    Nan { negative: bool },
}
pub fn v_special_float(s: &[u8]) -> Option<Special> {
    let (negative, t) = if !s.is_empty() && s[0] == b'-' {
        (true, &s[1..])
    } else if !s.is_empty() && s[0] == b'+' {
        (false, &s[1..])
    } else {
        (false, s)
    };
    if t.len() != 3 {
        return None;
    }
    if t[0] == 0x69 && t[1] == 0x6e && t[2] == 0x66 {
        Some(Special::Inf { negative })
    } else if t[0] == 0x6e && t[1] == 0x61 && t[2] == 0x6e {
        Some(Special::Nan { negative })
    } else {
        None
    }
}
pub fn r_special_float(s: &[u8]) -> bool {
    v_special_float(s).is_some()
}

// float =/ special-float
pub fn r_float(s: &[u8]) -> bool {
    r_float_syntax(s) || r_special_float(s)
}

// boolean = true / false
pub fn r_boolean(s: &[u8]) -> bool {
    r_true(s) || r_false(s)
}
