//! Strings and keys: recognisers and *decoders* for the four string kinds and bare keys.
//!
//! A decoder returns `None` when the token is not derivable from the rule, otherwise the decoded
//! bytes (UTF-8) in a fixed buffer.  The input is valid UTF-8 by precondition, so `non-ascii`
//! bytes are copied through unchanged.
use crate::classes::*;
use crate::trivia::newline_at;
use crate::{is_scalar_value, Buf};

// unquoted-key = 1*( ALPHA / DIGIT / %x2D / %x5F ) ; A-Z / a-z / 0-9 / - / _
pub fn r_unquoted_key(s: &[u8]) -> bool {
    if s.is_empty() {
        return false;
    }
    let mut i = 0;
    while i < s.len() {
        if !r_unquoted_char(s[i]) {
            return false;
        }
        i += 1;
    }
    true
}

/// Result of reading one `escape-seq-char` (the part after the backslash)
#[derive(Clone, Copy, Debug, PartialEq, Eq)]
pub struct Escape {
    /// bytes used after the backslash
    pub len: usize,
    /// the Unicode scalar value it denotes
    pub scalar: u32,
}

// escape-seq-char =  %x22         ; "    quotation mark  U+0022
// escape-seq-char =/ %x5C         ; \    reverse solidus U+005C
// escape-seq-char =/ %x62         ; b    backspace       U+0008
// escape-seq-char =/ %x66         ; f    form feed       U+000C
// escape-seq-char =/ %x6E         ; n    line feed       U+000A
// escape-seq-char =/ %x72         ; r    carriage return U+000D
// escape-seq-char =/ %x74         ; t    tab             U+0009
// escape-seq-char =/ %x75 4HEXDIG ; uXXXX                U+XXXX
// escape-seq-char =/ %x55 8HEXDIG ; UXXXXXXXX            U+XXXXXXXX
// "The escape codes must be valid Unicode scalar values."
/// the escape at the *start* of `s` (prefix match; `s` may continue)
pub fn escape_at(s: &[u8], i: usize) -> Option<Escape> {
    if i >= s.len() {
        return None;
    }
    let simple = match s[i] {
        0x22 => Some(0x22),
        0x5C => Some(0x5C),
        0x62 => Some(0x08),
        0x66 => Some(0x0C),
        0x6E => Some(0x0A),
        0x72 => Some(0x0D),
        0x74 => Some(0x09),
        _ => None,
    };
    if let Some(scalar) = simple {
        return Some(Escape { len: 1, scalar });
    }
    let n = if s[i] == 0x75 {
        4
    } else if s[i] == 0x55 {
        8
    } else {
        return None;
    };
    if i + 1 + n > s.len() {
        return None;
    }
    let mut v: u32 = 0;
    let mut k = 0;
    while k < n {
        let b = s[i + 1 + k];
        if !r_hexdig(b) {
            return None;
        }
        v = (v << 4) | v_hexdig(b);
        k += 1;
    }
    if !is_scalar_value(v) {
        return None;
    }
    Some(Escape { len: 1 + n, scalar: v })
}

/// whole-string version: `s` is exactly one escape-seq-char
pub fn v_escape_seq_char(s: &[u8]) -> Option<u32> {
    match escape_at(s, 0) {
        Some(e) if e.len == s.len() => Some(e.scalar),
        _ => None,
    }
}

/// `N` HEXDIG denoting a scalar value (the argument of `\u` / `\U`)
pub fn v_hexescape(s: &[u8], n: usize) -> Option<u32> {
    if s.len() != n {
        return None;
    }
    let mut v: u32 = 0;
    let mut k = 0;
    while k < n {
        if !r_hexdig(s[k]) {
            return None;
        }
        v = (v << 4) | v_hexdig(s[k]);
        k += 1;
    }
    if is_scalar_value(v) {
        Some(v)
    } else {
        None
    }
}

// basic-string = quotation-mark *basic-char quotation-mark
// basic-char = basic-unescaped / escaped
// escaped = escape escape-seq-char
pub fn decode_basic<const N: usize>(s: &[u8]) -> Option<Buf<N>> {
    if s.len() < 2 || s[0] != 0x22 || s[s.len() - 1] != 0x22 {
        return None;
    }
    let end = s.len() - 1;
    let mut out = Buf::<N>::new();
    let mut i = 1;
    while i < end {
        let b = s[i];
        if b == 0x5C {
            // the escape must lie inside the body: the closing quote is not part of it
            match escape_at(&s[..end], i + 1) {
                Some(e) => {
                    out.push_scalar(e.scalar);
                    i += 1 + e.len;
                }
                None => return None,
            }
        } else if r_basic_unescaped(b) {
            out.push(b);
            i += 1;
        } else {
            return None;
        }
    }
    Some(out)
}

// literal-string = apostrophe *literal-char apostrophe
pub fn decode_literal<const N: usize>(s: &[u8]) -> Option<Buf<N>> {
    if s.len() < 2 || s[0] != 0x27 || s[s.len() - 1] != 0x27 {
        return None;
    }
    let mut out = Buf::<N>::new();
    let mut i = 1;
    while i < s.len() - 1 {
        if !r_literal_char(s[i]) {
            return None;
        }
        out.push(s[i]);
        i += 1;
    }
    Some(out)
}

// ml-basic-string = ml-basic-string-delim [ newline ] ml-basic-body ml-basic-string-delim
// ml-basic-string-delim = 3quotation-mark
// ml-basic-body = *mlb-content *( mlb-quotes 1*mlb-content ) [ mlb-quotes ]
// mlb-content = mlb-char / newline / mlb-escaped-nl
// mlb-char = mlb-unescaped / escaped
// mlb-quotes = 1*2quotation-mark
// mlb-escaped-nl = escape ws newline *( wschar / newline )
//
// Equivalent deterministic reading: between the delimiters every maximal run of unescaped
// quotation marks has length 1 or 2; a run may touch the closing delimiter (so the token may end
// in 3, 4 or 5 quotation marks).  "A newline immediately following the opening delimiter will be
// trimmed."  Newlines in the body are kept *as written*?  No: TOML leaves normalisation of
// newlines to the implementation ("feel free to normalize to whatever makes sense for their
// platform"); toml_edit normalises CRLF to LF.  `crlf_to_lf` selects that documented choice.
pub fn decode_ml_basic<const N: usize>(s: &[u8], crlf_to_lf: bool) -> Option<Buf<N>> {
    if s.len() < 6 {
        return None;
    }
    let q = 0x22;
    if !(s[0] == q && s[1] == q && s[2] == q) {
        return None;
    }
    let n = s.len();
    if !(s[n - 1] == q && s[n - 2] == q && s[n - 3] == q) {
        return None;
    }
    let end = n - 3; // body is s[3..end]
    let mut out = Buf::<N>::new();
    let mut i = 3;
    // [ newline ]
    let nl = newline_at(&s[..end], i);
    i += nl;
    while i < end {
        let b = s[i];
        if b == q {
            // a run of quotes: at most 2, and when it is followed by more body it must not be
            // followed by a third quote.  When it reaches `end` it is the optional final mlb-quotes.
            let mut run = 0;
            while i < end && s[i] == q {
                run += 1;
                i += 1;
            }
            if run > 2 {
                return None;
            }
            let mut k = 0;
            while k < run {
                out.push(q);
                k += 1;
            }
        } else if b == 0x5C {
            // escaped, or mlb-escaped-nl
            if let Some(e) = escape_at(&s[..end], i + 1) {
                out.push_scalar(e.scalar);
                i += 1 + e.len;
            } else {
                // escape ws newline *( wschar / newline )
                let mut j = i + 1;
                while j < end && r_wschar(s[j]) {
                    j += 1;
                }
                let l = newline_at(&s[..end], j);
                if l == 0 {
                    return None;
                }
                j += l;
                loop {
                    if j < end && r_wschar(s[j]) {
                        j += 1;
                    } else {
                        let l = newline_at(&s[..end], j);
                        if l == 0 {
                            break;
                        }
                        j += l;
                    }
                }
                i = j;
            }
        } else if r_mlb_unescaped(b) {
            out.push(b);
            i += 1;
        } else {
            let l = newline_at(&s[..end], i);
            if l == 0 {
                return None;
            }
            if l == 2 && !crlf_to_lf {
                out.push(0x0D);
            }
            out.push(0x0A);
            i += l;
        }
    }
    Some(out)
}

// ml-literal-string = ml-literal-string-delim [ newline ] ml-literal-body ml-literal-string-delim
// ml-literal-string-delim = 3apostrophe
// ml-literal-body = *mll-content *( mll-quotes 1*mll-content ) [ mll-quotes ]
// mll-content = mll-char / newline
// mll-quotes = 1*2apostrophe
pub fn decode_ml_literal<const N: usize>(s: &[u8], crlf_to_lf: bool) -> Option<Buf<N>> {
    if s.len() < 6 {
        return None;
    }
    let q = 0x27;
    if !(s[0] == q && s[1] == q && s[2] == q) {
        return None;
    }
    let n = s.len();
    if !(s[n - 1] == q && s[n - 2] == q && s[n - 3] == q) {
        return None;
    }
    let end = n - 3;
    let mut out = Buf::<N>::new();
    let mut i = 3;
    i += newline_at(&s[..end], i);
    while i < end {
        let b = s[i];
        if b == q {
            let mut run = 0;
            while i < end && s[i] == q {
                run += 1;
                i += 1;
            }
            if run > 2 {
                return None;
            }
            let mut k = 0;
            while k < run {
                out.push(q);
                k += 1;
            }
        } else if r_mll_char(b) {
            out.push(b);
            i += 1;
        } else {
            let l = newline_at(&s[..end], i);
            if l == 0 {
                return None;
            }
            if l == 2 && !crlf_to_lf {
                out.push(0x0D);
            }
            out.push(0x0A);
            i += l;
        }
    }
    Some(out)
}

/// Quoting styles a writer can offer
#[derive(Clone, Copy, Debug, PartialEq, Eq)]
pub enum Style {
    Bare,
    Basic,
    Literal,
    MlBasic,
    MlLiteral,
}

/// Can `decoded` (valid UTF-8) be written in `style` *without any escape sequence* so that it
/// reads back unchanged?  (Spec prose on which characters each string kind can hold.)
/// For the multi-line kinds a writer may put a newline right after the opening delimiter, so a
/// leading newline in the content is no obstacle.
pub fn representable_verbatim(decoded: &[u8], style: Style) -> bool {
    match style {
        Style::Bare => r_unquoted_key(decoded),
        Style::Basic => {
            let mut i = 0;
            while i < decoded.len() {
                if !r_basic_unescaped(decoded[i]) {
                    return false;
                }
                i += 1;
            }
            true
        }
        Style::Literal => {
            let mut i = 0;
            while i < decoded.len() {
                if !r_literal_char(decoded[i]) {
                    return false;
                }
                i += 1;
            }
            true
        }
        Style::MlBasic | Style::MlLiteral => {
            let q = if style == Style::MlBasic { 0x22 } else { 0x27 };
            let mut run = 0;
            let mut i = 0;
            while i < decoded.len() {
                let b = decoded[i];
                if b == q {
                    run += 1;
                    if run > 2 {
                        return false;
                    }
                } else {
                    run = 0;
                    let ok_char = if style == Style::MlBasic {
                        r_mlb_unescaped(b)
                    } else {
                        r_mll_char(b)
                    };
                    // a bare LF is content; CR cannot be written verbatim (a CRLF would read
                    // back as LF under newline normalisation, a lone CR is not allowed)
                    if !(ok_char || b == 0x0A) {
                        return false;
                    }
                }
                i += 1;
            }
            true
        }
    }
}

// mlb-quotes = 1*2quotation-mark      mll-quotes = 1*2apostrophe
//
// ml-basic-body = *mlb-content *( mlb-quotes 1*mlb-content ) [ mlb-quotes ]
/// The quotes token at the start of `s` when `s` begins with a run of `q`:
/// * inside the body (`at_end == false`) 1 or 2 quotes count only when *content* follows, i.e. the
///   run is exactly 1 or 2 long and something other than `q` comes after it;
/// * next to the closing delimiter (`at_end == true`) the run must be 3 delimiter quotes plus 1 or
///   2 content quotes: a run of 4 gives 1, a run of 5 or more gives 2 (what follows the delimiter
///   is not this rule's concern).
pub fn ml_quotes_at_start(s: &[u8], q: u8, at_end: bool) -> Option<usize> {
    let mut run = 0;
    while run < s.len() && run < 6 && s[run] == q {
        run += 1;
    }
    if at_end {
        if run == 4 {
            Some(1)
        } else if run >= 5 {
            Some(2)
        } else {
            None
        }
    } else if (run == 1 || run == 2) && s.len() > run {
        Some(run)
    } else {
        None
    }
}

// mlb-escaped-nl = escape ws newline *( wschar / newline )
/// length of the longest `1*mlb-escaped-nl` at the start of `s` (0 if none)
pub fn mlb_escaped_nl_at_start(s: &[u8]) -> usize {
    let mut i = 0;
    loop {
        // escape ws newline
        if !(i < s.len() && s[i] == 0x5C) {
            return i;
        }
        let mut j = i + 1;
        while j < s.len() && r_wschar(s[j]) {
            j += 1;
        }
        let l = newline_at(s, j);
        if l == 0 {
            return i;
        }
        j += l;
        // *( wschar / newline )
        loop {
            if j < s.len() && r_wschar(s[j]) {
                j += 1;
            } else {
                let l = newline_at(s, j);
                if l == 0 {
                    break;
                }
                j += l;
            }
        }
        i = j;
    }
}
