//! Native replay crate: includes the harness sources of ../kani unchanged, plus the unit tests
//! that `check` generates from Kani's concrete playback (`generated.rs`, not committed).
#![allow(dead_code)]
#![cfg_attr(kani, feature(formatting_options))]
#![allow(unused_imports)]

#[cfg(kani)]
#[path = "../kani/src/modules.rs"]
mod modules;
#[cfg(kani)]
pub use modules::*;

#[cfg(kani)]
#[cfg(test)]
mod generated {
    include!("generated.rs");
}
