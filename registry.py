"""Harness registry: which Kani proof harness decides which property, in which tier, under which
bound and environment models.  `check` imports this file.

H(name, props, kernel, bound, tier, measured_s, models)
  name        module::function in /verif/kani/src
  props       properties the harness contributes to (the first one is its primary property)
  kernel      the functions of /repo whose compiled code the solver decides
  bound       the input space decided (everything outside is outside the claim)
  tier        quick | thorough
  measured_s  wall time measured on the unchanged tree (16 cores busy); cap = max(240, 5x)
  models      environment models of DESIGN.md 2.3 in effect (M1 and M7 apply to all parser harnesses)
"""

HARNESSES = []


def H(name, props, kernel, bound, tier="quick", measured_s=30, models=("M1", "M7"), mem_gb=32, termination=False, loops=None, rss_gb=None):
    HARNESSES.append(
        {
            "name": name,
            "props": list(props),
            "kernel": kernel,
            "bound": bound,
            "tier": tier,
            "measured_s": measured_s,
            # generous: a cap hit on the unchanged tree would make the check exit 2; measured times
            # vary by 3x with machine load (14 solver processes share the memory bus)
            "cap_s": int(max(900, 4 * measured_s)),
            "models": list(models),
            "mem_gb": mem_gb,
            "termination": termination,
            # per-loop unwinding bounds: [[regex on demangled function or file, bound], ...]; loops
            # not matched get the harness's #[kani::unwind]; unwinding assertions stay on for all
            "loops": loops,
            # resident-set estimate for the memory-aware scheduler of ./check
            "rss_gb": rss_gb if rss_gb is not None else (3 if tier == "quick" else 8),
        }
    )


A = "all ASCII byte strings of length <= %d (symbolic length)"
U = "all well-formed UTF-8 byte strings of length <= %d (symbolic length)"

# ---- byte classes -------------------------------------------------------------------------------
H("h_classes::c01_classes_all_bytes", ["C01", "C04"], "15 byte-class tables of parser/{trivia,strings,key,numbers,datetime}.rs via ContainsToken",
  "every byte value 0..=255 against every table", measured_s=3)

# ---- trivia -------------------------------------------------------------------------------------
H("h_trivia::c01_ws_u4", ["C01", "C04"], "trivia::ws (+ from_utf8_unchecked)", U % 4, measured_s=5)
H("h_trivia::c01_newline_u3", ["C01", "C04"], "trivia::newline", U % 3, measured_s=4)
H("h_trivia::c01_comment_u4", ["C01", "C04"], "trivia::comment", U % 4, measured_s=7)
H("h_trivia::c01_line_ending_u3", ["C01", "C04"], "trivia::line_ending", U % 3, measured_s=5)
H("h_trivia::c01_ws_newline_a4", ["C01", "C04"], "trivia::ws_newline", A % 4, measured_s=31)
H("h_trivia::c01_ws_newlines_a4", ["C01", "C04"], "trivia::ws_newlines", A % 4, measured_s=35)
H("h_trivia::c01_ws_comment_newline_a4", ["C01", "C04"], "trivia::ws_comment_newline (loop with no-progress exit)", A % 4, measured_s=160, termination=True, tier="thorough")
H("h_trivia::c01_ws_comment_newline_a3", ["C01", "C04"], "trivia::ws_comment_newline (loop with no-progress exit)", A % 3, measured_s=40, termination=True)
H("h_trivia::c01_line_trailing_a4", ["C01", "C04"], "trivia::line_trailing", A % 4, measured_s=17)

# ---- numbers ------------------------------------------------------------------------------------
H("h_numbers::c01_dec_int_u4", ["C01", "C04"], "numbers::dec_int (+ from_utf8_unchecked)", U % 4, measured_s=53)
H("h_numbers::c01_hex_int_u5", ["C01", "C04"], "numbers::hex_int (+ from_utf8_unchecked)", U % 5, measured_s=74)
H("h_numbers::c01_oct_int_u5", ["C01", "C04"], "numbers::oct_int (+ from_utf8_unchecked)", U % 5, measured_s=60)
H("h_numbers::c01_bin_int_u5", ["C01", "C04"], "numbers::bin_int (+ from_utf8_unchecked)", U % 5, measured_s=60)
H("h_numbers::c01_zero_prefixable_int_u4", ["C01", "C04"], "numbers::zero_prefixable_int (+ from_utf8_unchecked)", U % 4, measured_s=43)
H("h_numbers::c01_frac_u4", ["C01", "C04"], "numbers::frac (+ from_utf8_unchecked)", U % 4, measured_s=53)
H("h_numbers::c01_exp_u4", ["C01", "C04"], "numbers::exp (+ from_utf8_unchecked)", U % 4, measured_s=60)
H("h_numbers::c01_float_syntax_a4", ["C01", "C04"], "numbers::float_ (dec_int, exp, frac; + from_utf8_unchecked)", A % 4, measured_s=700, tier="thorough", rss_gb=24)
for b, n in (("hex", "0x"), ("oct", "0o"), ("bin", "0b")):
    H(f"h_numbers::c02_integer_{b}_a5", ["C02", "C01", "C11", "C04"], f"numbers::integer ({b} arm: dispatch, {b}_int, replace, from_str_radix)",
      f"`{n}` + every ASCII string of <= 3 bytes (symbolic length)", tier="thorough", measured_s=700, models=("M1", "M2", "M7"), rss_gb=24)
H("h_numbers::c02_integer_dec_a4", ["C02", "C01", "C11", "C04"], "numbers::integer (decimal arm: dispatch, dec_int, rest, replace, parse::<i64>)",
  A % 4 + " not starting with 0x / 0o / 0b", tier="thorough", measured_s=840, models=("M1", "M2", "M7"), rss_gb=24)
H("h_numbers::c11_integer_hex_edge16", ["C11", "C02", "C01", "C04"], "numbers::integer (hex arm) with M2", "`0x` + 16 symbolic hex digits (every 64-bit pattern, both cases of A-F)", tier="thorough", measured_s=372, models=("M1", "M2", "M7"), mem_gb=40, rss_gb=24)
H("h_numbers::c11_integer_oct_edge22", ["C11", "C02", "C01", "C04"], "numbers::integer (octal arm) with M2", "`0o` + 22 symbolic octal digits (66 bits)", tier="thorough", measured_s=478, models=("M1", "M2", "M7"), mem_gb=40, rss_gb=24)
# deeper bounds of the same kernels (thorough tier)
H("h_trivia::c01_comment_u6", ["C01", "C04"], "trivia::comment", U % 6, tier="thorough", measured_s=10)
H("h_trivia::c01_ws_comment_newline_a5", ["C01", "C04"], "trivia::ws_comment_newline", A % 5, tier="thorough", measured_s=405, termination=True, rss_gb=24)
H("h_trivia::c01_ws_newline_a6", ["C01", "C04"], "trivia::ws_newline", A % 6, tier="thorough", measured_s=81)
H("h_numbers::c01_dec_int_u6", ["C01", "C04"], "numbers::dec_int", U % 6, tier="thorough", measured_s=107)
H("h_numbers::c01_dec_int_u10", ["C01", "C04"], "numbers::dec_int", U % 10, tier="thorough", measured_s=131)
H("h_numbers::c01_hex_int_u7", ["C01", "C04"], "numbers::hex_int", U % 7, tier="thorough", measured_s=122)
H("h_numbers::c01_hex_int_u12", ["C01", "C04"], "numbers::hex_int", U % 12, tier="thorough", measured_s=176)
H("h_numbers::c01_oct_int_u7", ["C01", "C04"], "numbers::oct_int", U % 7, tier="thorough", measured_s=121)
H("h_numbers::c01_bin_int_u7", ["C01", "C04"], "numbers::bin_int", U % 7, tier="thorough", measured_s=122)
H("h_numbers::c01_zero_prefixable_int_u6", ["C01", "C04"], "numbers::zero_prefixable_int", U % 6, tier="thorough", measured_s=87)
H("h_numbers::c01_frac_u6", ["C01", "C04"], "numbers::frac", U % 6, tier="thorough", measured_s=114)
H("h_numbers::c01_exp_u6", ["C01", "C04"], "numbers::exp", U % 6, tier="thorough", measured_s=118)
H("h_numbers::c01_float_syntax_a5", ["C01", "C04"], "numbers::float_ (dec_int, exp, frac)", A % 5, tier="thorough", measured_s=481, rss_gb=24)
H("h_strings::c01_unquoted_key_u8", ["C01", "C04"], "key::unquoted_key", U % 8, tier="thorough", measured_s=20)
H("h_numbers::c01_true_a5", ["C01", "C02"], "numbers::true_", A % 5, measured_s=6)
H("h_numbers::c01_false_a6", ["C01", "C02"], "numbers::false_", A % 6, measured_s=7)
H("h_numbers::c02_special_float_a5", ["C02", "C01", "C11"], "numbers::special_float, inf, nan", A % 5, measured_s=14)

# ---- strings / keys -----------------------------------------------------------------------------
H("h_strings::c01_unquoted_key_u4", ["C01", "C04"], "key::unquoted_key (+ from_utf8_unchecked)", U % 4, measured_s=7)
H("h_strings::c02_escape_seq_char_u5", ["C02", "C01", "C04"], "strings::escape_seq_char, hexescape::<4>", U % 5, measured_s=60)
H("h_strings::c02_hexescape4_u5", ["C02", "C01", "C04"], "strings::hexescape::<4> (+ from_utf8_unchecked, from_str_radix, char::from_u32)", U % 5, measured_s=25)
H("h_strings::c02_hexescape8_shape9", ["C02", "C01", "C04"], "strings::hexescape::<8>", "7 symbolic HEXDIG bytes + 1 or 2 free bytes (well-formed UTF-8 overall: the 8-byte window may end inside a 2-byte character)", measured_s=29)

H("h_string_tokens::c02_literal_string_u5", ["C02", "C01", "C04"], "strings::literal_string (delimited, take_while(LITERAL_CHAR), try_map(from_utf8))",
  "`'` + every well-formed UTF-8 string of <= 4 bytes (symbolic length)", measured_s=19, models=("M1", "M7"))
H("h_string_kernels::c02_basic_chars_u4", ["C02", "C01", "C04"], "strings::basic_chars (take_while(BASIC_UNESCAPED).try_map(from_utf8) | escaped)", U % 4, measured_s=80, models=("M1", "M7"))
H("h_string_kernels::c02_mll_content_u3", ["C02", "C01", "C04"], "strings::mll_content", U % 3, measured_s=7)
H("h_string_kernels::c01_mlb_quotes_body_a6", ["C01", "C02", "C04"], "strings::mlb_quotes(none_of('\"'))", A % 6, measured_s=10)
H("h_string_kernels::c01_mlb_quotes_end_a6", ["C01", "C02", "C04"], "strings::mlb_quotes(ML_BASIC_STRING_DELIM)", A % 6, measured_s=16)
H("h_string_kernels::c01_mll_quotes_body_a6", ["C01", "C02", "C04"], "strings::mll_quotes(none_of('\''))", A % 6, measured_s=11)
H("h_string_kernels::c01_mll_quotes_end_a6", ["C01", "C02", "C04"], "strings::mll_quotes(ML_LITERAL_STRING_DELIM)", A % 6, measured_s=16)

# ---- date-time kernels of toml_edit -------------------------------------------------------------
for f in ("time_hour", "time_minute", "time_second", "date_month", "date_mday"):
    H(f"h_datetime_kernels::c12_{f}_3", ["C12", "C01", "C02", "C04"], f"datetime::{f} (unsigned_digits::<2,2>, try_map range check, expect)", A % 3, measured_s=9)
H("h_datetime_kernels::c12_date_fullyear_u5", ["C12", "C01", "C02", "C04"], "datetime::date_fullyear (expect(\"4DIGIT should match u8\"))", U % 5, measured_s=23)
H("h_datetime_kernels::c12_time_delim_u2", ["C12", "C01"], "datetime::time_delim", U % 2, measured_s=4)
H("h_datetime_kernels::c12_time_secfrac_shape13", ["C12", "C02", "C04"], "datetime::time_secfrac (SCALE table, truncation, checked_mul)",
  "'.' + k symbolic digits (k = 0..=11 symbolic) + optional symbolic non-digit ASCII byte", measured_s=161)
H("h_datetime_kernels::c12_time_offset_a3", ["C12", "C01", "C04"], "datetime::time_offset", A % 3, measured_s=20)
H("h_datetime_kernels::c12_time_offset_shape6", ["C12", "C01", "C02", "C04"], "datetime::time_offset (sign, range verify, unreachable!)",
  "free ASCII byte + 2 symbolic digits + free ASCII byte + 2 symbolic digits", measured_s=52)

H("h_datetime_kernels::c12_full_date_a11", ["C12", "C01", "C02", "C04"], "datetime::full_date (date_fullyear, date_month, date_mday, leap-year rule, cut errors)", A % 11, measured_s=167, tier="thorough")
H("h_datetime_kernels::c12_partial_time_a10", ["C12", "C01", "C02", "C04"], "datetime::partial_time (time_hour, time_minute, time_second, time_secfrac)", A % 10, measured_s=222, tier="thorough")

# ---- toml_datetime::Datetime::from_str (public API, no hook) ------------------------------------
H("h_datetime_fromstr::c12_fromstr_a8", ["C12", "C04"], "toml_datetime::Datetime::from_str, digit", A % 8, measured_s=80, models=("M8",))
H("h_datetime_fromstr::c12_fromstr_shape_date", ["C12", "C04"], "toml_datetime::Datetime::from_str",
  "`dddd-dd-dd` with 8 symbolic digits (all 10^8 dates incl. leap years) + optional free ASCII byte", tier="thorough", measured_s=380, models=("M8",))
H("h_datetime_fromstr::c12_fromstr_shape_datetime_offset", ["C12", "C04"], "toml_datetime::Datetime::from_str",
  "`dddd-dd-dd D dd:dd:dd` + nothing | free byte | `F dd G dd` (D, F, G free ASCII bytes, 18 symbolic digits)", tier="thorough", measured_s=590, models=("M8",))
H("h_datetime_fromstr::c12_fromstr_shape_full_one_free", ["C12", "C04"], "toml_datetime::Datetime::from_str",
  "`dddd-dd-ddTdd:dd:dd.ddd+dd:dd`, 21 symbolic digits, one of the 8 punctuation bytes (symbolic choice) replaced by a free ASCII byte", tier="thorough", measured_s=520, models=("M8",))
H("h_datetime_fromstr::c12_fromstr_shape_feb", ["C12", "C04"], "toml_datetime::Datetime::from_str (leap-year rule)", "`dddd-02-dd`, 6 symbolic digits: February of every year", measured_s=80, models=("M8",))
for k, t, m in ((1, "quick", 104), (4, "quick", 112), (9, "thorough", 500), (10, "thorough", 450)):
    H(f"h_datetime_fromstr::c12_fromstr_time_frac{k}", ["C12", "C04"], "toml_datetime::Datetime::from_str (fraction loop, 10u32.pow, truncation)", f"`dd:dd:dd.` + exactly {k} symbolic digits", tier=t, measured_s=m, models=("M8",))
H("h_datetime_fromstr::c12_fromstr_a14", ["C12", "C04"], "toml_datetime::Datetime::from_str, digit", A % 14, measured_s=170, models=("M8",), tier="thorough")
H("h_datetime_fromstr::c12_fromstr_a19", ["C12", "C04"], "toml_datetime::Datetime::from_str, digit", A % 19, tier="thorough", measured_s=1350, models=("M8",), mem_gb=40, rss_gb=24)
H("h_datetime_fromstr::c12_fromstr_a25", ["C12", "C04"], "toml_datetime::Datetime::from_str, digit", A % 25, tier="thorough", measured_s=2060, models=("M8",), mem_gb=40, rss_gb=24)
H("h_datetime_fromstr::c12_fromstr_u7", ["C12", "C04"], "toml_datetime::Datetime::from_str, digit", U % 7, tier="thorough", measured_s=93, models=("M8",))
H("h_datetime_fromstr::c12_fromstr_u5", ["C12", "C04"], "toml_datetime::Datetime::from_str, digit", U % 5, measured_s=60, models=("M8",))

# ---- C12 step 3: printer (engine E2: unmodified toml_datetime source, Display driven through core::fmt::Formatter into a fixed buffer)
P = "toml_datetime: <%s as Display>::fmt (unmodified source via E2)"
H("h_datetime_printer::c12_print_date", ["C12"], P % "Date", "every Date with year <= 9999, month 1-12, day valid for the month", measured_s=27, models=("E2",))
H("h_datetime_printer::c12_print_time_whole_seconds", ["C12"], P % "Time", "every Time with hour <= 23, minute <= 59, second <= 60, nanosecond 0", measured_s=26, models=("E2",))
H("h_datetime_printer::c12_print_offset", ["C12"], P % "Offset", "Z and every Custom offset with |minutes| <= 23:59", measured_s=29, models=("E2",))
H("h_datetime_printer::c12_print_local_date_and_time", ["C12"], P % "Datetime", "every local date; every local time with whole seconds", measured_s=102, models=("E2",))
H("h_datetime_printer::c12_print_local_datetime", ["C12"], P % "Datetime", "every local date-time with whole seconds", measured_s=176, models=("E2",), tier="thorough")
H("h_datetime_printer::c12_print_offset_datetime", ["C12"], P % "Datetime", "every offset date-time with whole seconds, offset Z or |minutes| <= 23:59", tier="thorough", measured_s=483, models=("E2",), mem_gb=40, rss_gb=24)
H("h_datetime_printer::c12_print_time_millis", ["C12"], P % "Time" + " incl. format!(\"{:09}\") + trim_end_matches('0')", "every valid time with nanosecond = m * 1_000_000, m in 1..=999", tier="thorough", measured_s=224, models=("E2",))
H("h_datetime_printer::c12_print_time_nanos_low", ["C12"], P % "Time" + " incl. format!(\"{:09}\") + trim_end_matches('0')", "every valid time with nanosecond in 1..=999", tier="thorough", measured_s=172, models=("E2",))

# ---- C11: float overflow guard ------------------------------------------------------------------
H("h_float::c11_float_overflow_guard_small", ["C11", "C01"], "numbers::float (float_, rest.try_map(parse), verify) with M2 + M3",
  "[-]? d e ddd : optional minus, 4 symbolic digits", tier="thorough", measured_s=1100, models=("M1", "M2", "M3", "M7"), mem_gb=40, rss_gb=24)

H("h_float_writer::c11_write_f64_all_bits", ["C11"], "toml_write: <f64 as WriteTomlValue>::write_toml_value (unmodified source via E2)", "every f64 bit pattern (integrality of finite values judged by `% 1.0` on both sides, see M4)", measured_s=16, models=("E2", "M4"))
H("h_float_writer::c11_write_f32_all_bits", ["C11"], "toml_write: <f32 as WriteTomlValue>::write_toml_value (unmodified source via E2)", "every f32 bit pattern", measured_s=11, models=("E2", "M4"))

H("h_serde_leaves::c11_ser_u64_toml_edit", ["C11"], "toml_edit::ser::ValueSerializer::serialize_u64", "every u64", measured_s=10, models=())
H("h_serde_leaves::c11_ser_small_ints_toml_edit", ["C11"], "toml_edit::ser::ValueSerializer::serialize_{i64,u32,i8}", "every i64, u32, i8", measured_s=26, models=())
H("h_serde_leaves::c11_ser_f64_toml_edit", ["C11"], "toml_edit::ser::ValueSerializer::serialize_{f64,f32}", "every f64 and f32 bit pattern", measured_s=18, models=())
H("h_serde_leaves::c11_ser_u64_toml_value", ["C11"], "toml::Value::try_from::<u64> (toml::value::ValueSerializer::serialize_u64)", "every u64", measured_s=1, models=())

# ---- C05: nesting counter -----------------------------------------------------------------------
H("h_recursion::c05_enter_exit_step", ["C05"], "parser::prelude::RecursionCheck::enter / exit", "every counter value current < LIMIT (symbolic usize), one step", measured_s=1, models=())
H("h_recursion::c05_check_depth_all", ["C05"], "parser::prelude::RecursionCheck::check_depth", "every usize", measured_s=1, models=())
H("h_recursion::c05_check_recursion_balanced", ["C05"], "parser::prelude::check_recursion", "every counter value < LIMIT x {Ok, Backtrack, Cut} result of the wrapped parser", measured_s=1, models=("M1",))

# ---- C10: quoting, offer side -------------------------------------------------------------------
H("h_quoting::c10_value_offers_u6", ["C10"], "toml_write::TomlStringBuilder::{new, as_literal, as_ml_literal, as_basic_pretty, as_ml_basic_pretty}, ValueMetrics::calculate", U % 6, measured_s=7, models=())
H("h_quoting::c10_key_offers_u6", ["C10"], "toml_write::TomlKeyBuilder::{new, as_unquoted, as_literal, as_basic_pretty}, KeyMetrics::calculate", U % 6, measured_s=5, models=())

# ---- C10 encode side (engine E2, per-loop unwinding bounds) ------------------------------------------
# the writer's outer and inner loops run at most len+1 times; the pieces it writes are at most 4 bytes
ENC_LOOPS = [[r"tw::string::write_toml_value", 5], [r"litefmt::FixedBuf<\d+> as std::fmt::Write>::write_str", 5], [r"Metrics>?::calculate", 5], [r"refmodel::utf8_valid", 5], [r"util::any_utf8", 5]]
W = "toml_write::string::write_toml_value + TomlStringBuilder (unmodified source via E2)"
H("h_encode::c10_encode_basic_u3", ["C10"], W + ", as_basic", U % 3, tier="thorough", measured_s=1060, models=("E2", "M8"), loops=ENC_LOOPS, rss_gb=24)
H("h_encode::c10_encode_literal_u3", ["C10"], W + ", as_literal", U % 3, tier="thorough", measured_s=680, models=("E2", "M8"), loops=ENC_LOOPS, rss_gb=24)
H("h_encode::c10_encode_ml_literal_u3", ["C10"], W + ", as_ml_literal", U % 3, tier="thorough", measured_s=1370, models=("E2", "M8"), loops=ENC_LOOPS, rss_gb=24)
# (as_ml_basic, as_default and the key builder do not finish within 30 min even at <= 2 bytes: not registered)

# ---- C15: line/column translation ---------------------------------------------------------------
for n, t, m in ((3, "quick", 16), (4, "quick", 23), (5, "quick", 30), (6, "quick", 31), (8, "thorough", 120)):
    H(f"h_position::c15_translate_position_u{n}", ["C15", "C04"], "error::translate_position", U % n + " x every index <= len on a character boundary", tier=t, measured_s=m, models=("M7", "M9"))
H("h_position::c15_translate_position_two_wide", ["C15", "C04"], "error::translate_position", "two 2-byte characters (all lead/continuation byte values) x index in {0, 2, 4}", measured_s=12, models=("M7", "M9"))
H("h_position::c15_translate_position_three_chars", ["C15", "C04"], "error::translate_position", "three characters, each 1 or 2 bytes wide (symbolic widths and byte values) x every character boundary", measured_s=28, models=("M7", "M9"))

PROPERTIES = {
    "C01": {
        "outside": "composition of kernels by value/keyval/array/inline_table/table/document; string body loops; definition rules (C09); "
        "the serde front end's verdict; inputs longer than each harness bound; class U1 (DESIGN.md 3)",
        "assumptions": [
            "oracle: /verif/refmodel (toml.abnf 1.0.0 transcription), validated natively at setup against the toml-test corpus and the real parser",
            "kernel-level contract: Ok(n) => consumed prefix is in the rule's language (S1); input in the language => accepted in full (S2)",
        ],
    },
    "C02": {
        "outside": "assembly of string bodies; numeric value of finite floats (std); key order / nesting (IndexMap trees); toml::Value conversion",
        "assumptions": ["oracle: /verif/refmodel value functions (v_*)"],
    },
    "C04": {
        "outside": "document/value/key-path entry points as wholes; from_slice; Display/Debug/Clone/Drop of returned trees; error rendering apart from translate_position; running time as a function of input size",
        "assumptions": ["Kani default checks: panics, arithmetic overflow, out-of-bounds, invalid pointers, unwinding assertions (termination within the unwind bound)"],
    },
    "C05": {
        "outside": "that array/inline-table depth and dotted-key length multiply only up to a constant; that `key` passes k.len() to check_depth; "
        "that `value` wraps both container arms in check_recursion (the composite does not finish); acceptance below the limit; the whole stack-size half of the property",
        "assumptions": ["LIMIT is read from the code through the hook, not hard-coded; representation invariant: current < LIMIT while a parser runs"],
    },
    "C10": {
        "outside": "strings longer than the bound; the real string-body parser loops on the encoder's output (decode side is the reference decoder)",
        "assumptions": ["oracle: refmodel::strings::representable_verbatim (spec prose on what each string kind can hold)"],
    },
    "C11": {
        "outside": "bit-exact f64 print->parse round trip (std algorithms behind M3/M4); i128/u128; whole-document serde paths; literals outside the harness shapes",
        "assumptions": [
            "M2: str::replace('_', \"\") replaced by a byte loop (both call sites pass exactly this)",
            "M3: <f64 as FromStr>::from_str replaced by a contract stub exact for the harness shape; counterexamples are replayed against real std",
        ],
    },
    "C15": {
        "outside": "message non-emptiness; span well-formedness from winnow's char_span; Display for TomlError; deserialization error spans/key paths",
        "assumptions": [
            "M7: core::str::from_utf8 replaced by a plain validating loop inside translate_position",
            "M9: core::str::count::count_chars (str::chars().count()) replaced by a plain loop; std switches to a word-at-a-time algorithm at 32 bytes, which CBMC must encode when the length is symbolic (> 16 GB)",
            "oracle: refmodel::linecol::r_linecol; spans start on character boundaries",
        ],
    },
    "C12": {
        "outside": "the date_time alt/opt assembly in toml_edit; standalone-parser inputs longer than 25 bytes outside the shapes; printing of fractional seconds outside the two slices (whole milliseconds, 1-999 ns); the serde bridge",
        "assumptions": ["oracle: /verif/refmodel/src/datetime.rs (RFC 3339 5.6 + field ranges of the property; second 0-60 always accepted, U1-c)"],
    },
}

COMMON_ASSUMPTIONS = [
    "M1: winnow::error::ContextError is payload-free in the harness build (error messages not modelled); generated from the pinned winnow by tools/gen_winnow_lite.py",
    "M7: core::str::from_utf8 is a plain validating loop (refmodel::models::from_utf8, validated against std natively) wherever the code under test calls it; the harness profile has debug assertions ON, so trivia::from_utf8_unchecked runs its checked branch and every slice reaching it is validated",
    "CBMC/Kani soundness; Kani's models of std intrinsics; bounded: nothing is claimed outside each harness bound",
]
